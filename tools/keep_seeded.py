#!/venv/bin/python
"""Copy a confirmed seeded change into /verif/seeded/<id>/ with its meta.json.
usage: keep_seeded.py <id> <src dir> <property> <caught_by csv> <needs text> [<note>]"""
import json, os, shutil, subprocess, sys
sid, src, prop, caught, needs = sys.argv[1:6]
note = sys.argv[6] if len(sys.argv) > 6 else ""
dst = f"/verif/seeded/{sid}"
os.makedirs(dst, exist_ok=True)
for f in ("patch.diff", "demo.py", "notes.md"):
    if os.path.exists(os.path.join(src, f)):
        shutil.copy(os.path.join(src, f), os.path.join(dst, f if f != "notes.md" else "agent_notes.md"))
head = subprocess.run(["git", "-C", "/repo", "rev-parse", "--short", "HEAD"], capture_output=True, text=True).stdout.strip()
meta = {
    "id": sid, "property": prop,
    "origin": "independent sub-agent given only the property text and a scratch worktree of /repo",
    "needs_to_manifest": needs,
    "confirmed": {
        "base_commit": head,
        "procedure": "tools/verify_seeded.sh <dir> <checks>: git apply on a fresh scratch worktree; repository test-suite with the change; demo.py with the change; demo.py on the unchanged /repo/src; quick checks with FUNTRACKS_SRC pointing at the scratch worktree",
        "tests_with_change": "431 passed, 9 skipped",
        "demo_with_change": "exit 1", "demo_without_change": "exit 0",
    },
    "caught_by": [c for c in caught.split(",") if c],
    "note": note,
}
json.dump(meta, open(os.path.join(dst, "meta.json"), "w"), indent=1)
print("kept", dst)
