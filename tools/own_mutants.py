#!/venv/bin/python
"""Generate the planned (DESIGN.md section 6) mutants as patch files under
/verif/scratch/own/<name>/patch.diff by textual replacement on a scratch worktree."""
import os
import subprocess
import sys

S = "src/funtracks/"
M = [
    # name, props, file, old, new
    ("c01_delnode_core_only", ["C01"], S + "actions/add_delete_node.py",
     "        for key in self.tracks.features.node_features:\n            val = self.tracks.get_node_attr(node, key)",
     "        f = self.tracks.features\n        core = [f.time_key, f.tracklet_key, f.lineage_key, \"area\"] + (\n            f.position_key if isinstance(f.position_key, list) else [f.position_key]\n        )\n        for key in core:\n            val = self.tracks.get_node_attr(node, key)"),
    ("c01_updtrack_inverse_drops_lineage", ["C01", "C05"], S + "actions/update_track_id.py",
     "            self.old_tracklet_id,\n            self.old_lineage_id,\n", "            self.old_tracklet_id,\n"),
    ("c01_deledge_no_attrs", ["C01", "C09"], S + "actions/add_delete_edge.py",
     "            val = tracks.get_edge_attr(edge, key)\n            if val is not None:", "            val = tracks.get_edge_attr(edge, key)\n            if val is not None and key in tracks.annotators.all_features:"),
    ("c02_classic_undo", ["C02"], S + "actions/action_history.py",
     "            self.undo_stack.extend(self.redo_stack)\n", "            del self.undo_stack[self._undo_pointer + 1 :]\n"),
    ("c03_neighbors_le", ["C03", "C06"], S + "data_model/solution_tracks.py",
     "            if self.get_time(cand) < time:", "            if self.get_time(cand) <= time:"),
    ("c03_swap_time_gt", ["C03"], S + "user_actions/_user_swap_predecessors.py",
     "            if pred2_time >= time1:", "            if pred2_time > time1:"),
    ("c04_no_sibling_relabel", ["C04"], S + "user_actions/user_delete_node.py",
     "            if len(siblings) == 2:", "            if len(siblings) == 2 and self.tracks.graph.out_degree(node) == 0:"),
    ("c04_assign_gt2", ["C04"], S + "annotators/_track_annotator.py",
     "if degree >= 2]", "if degree > 2]"),
    ("c05_join_no_lineage", ["C05"], S + "user_actions/user_add_edge.py",
     "            new_lineage_id = self.tracks.get_lineage_id(source)\n", "            new_lineage_id = self.tracks.get_lineage_id(target)\n"),
    ("c06_empty_list_left", ["C06"], S + "annotators/_track_annotator.py",
     "        if not self.lineage_id_to_nodes[lineage_id]:\n            del self.lineage_id_to_nodes[lineage_id]", "        pass"),
    ("c06_max_not_raised", ["C06"], S + "annotators/_track_annotator.py",
     "        self.tracklet_id_to_nodes[tracklet_id].extend(nodes)\n        if tracklet_id > self.max_tracklet_id:\n            self.max_tracklet_id = tracklet_id",
     "        self.tracklet_id_to_nodes[tracklet_id].extend(nodes)\n        if tracklet_id == self.max_tracklet_id + 1:\n            self.max_tracklet_id = tracklet_id"),
    ("c06_delete_skips_lineage", ["C06"], S + "annotators/_track_annotator.py",
     "            lineage_id = action.attributes.get(self.lineage_key)\n            if lineage_id is not None:", "            lineage_id = action.attributes.get(self.lineage_key)\n            if lineage_id is not None and track_id is None:"),
    ("c07_nodeseg_inverse_keeps_added", ["C07", "C01"], S + "actions/update_segmentation.py",
     "            added=not self.added,", "            added=self.added and False,"),
    ("c08_spacing_wrong_slice", ["C08"], S + "annotators/_regionprops_annotator.py",
     "tuple(self.tracks.scale[1:])", "tuple(self.tracks.scale[:-1])"),
    ("c08_ignore_shrink", ["C08"], S + "annotators/_regionprops_annotator.py",
     "        # Get the node from the action\n        node = action.node\n", "        # Get the node from the action\n        node = action.node\n        if isinstance(action, UpdateNodeSeg) and not action.added:\n            return\n"),
    ("c09_only_out_edges", ["C09"], S + "annotators/_edge_annotator.py",
     "            edges_to_update = list(self.tracks.graph.in_edges(node)) + list(\n                self.tracks.graph.out_edges(node)\n            )", "            edges_to_update = list(self.tracks.graph.out_edges(node))"),
    ("c10_disable_keeps_annotator", ["C10"], S + "data_model/tracks.py",
     "        self.annotators.deactivate_features(feature_keys)\n", "        self.annotators.deactivate_features([k for k in feature_keys if k not in self.features])\n"),
    ("c10_protected_active_only", ["C10"], S + "actions/update_node_attrs.py",
     "        protected_attrs = set(tracks.annotators.all_features.keys())", "        protected_attrs = set(tracks.annotators.features.keys())"),
    ("c10_activate_before_validate", ["C10"], S + "annotators/_annotator_registry.py",
     "        # Validate first - fail before making any changes\n        available = self.all_features\n        not_found = [k for k in keys if k not in available]\n        if not_found:\n            raise KeyError(f\"Features not available: {not_found}\")\n\n        # All features exist - proceed with activating\n        for annotator in self:\n            annotator.activate_features(keys)",
     "        available = self.all_features\n        for annotator in self:\n            annotator.activate_features(keys)\n        not_found = [k for k in keys if k not in available]\n        if not_found:\n            raise KeyError(f\"Features not available: {not_found}\")"),
    ("c11_swap_validate_late", ["C11"], S + "user_actions/_user_swap_predecessors.py",
     "        if pred2 is not None:\n            pred2_time = tracks.get_time(pred2)\n            if pred2_time >= time1:\n                raise InvalidActionError(\n                    f\"Cannot swap: predecessor of node {node2} (time {pred2_time}) \"\n                    f\"is not before node {node1} (time {time1}).\"\n                )\n\n        # Break existing edges\n        if pred1 is not None:\n            self.actions.append(UserDeleteEdge(tracks, (pred1, node1), _top_level=False))\n",
     "        # Break existing edges\n        if pred1 is not None:\n            self.actions.append(UserDeleteEdge(tracks, (pred1, node1), _top_level=False))\n        if pred2 is not None:\n            pred2_time = tracks.get_time(pred2)\n            if pred2_time >= time1:\n                raise InvalidActionError(\n                    f\"Cannot swap: predecessor of node {node2} (time {pred2_time}) \"\n                    f\"is not before node {node1} (time {time1}).\"\n                )\n\n"),
    ("c12_combine_sorted", ["C12", "C14"], S + "import_export/_tracks_builder.py",
     "            col_arrays = [props[c][\"values\"] for c in source_cols]", "            col_arrays = [props[c][\"values\"] for c in sorted(source_cols, reverse=True)]"),
    ("c13_relabel_in_place", ["C13"], S + "import_export/_import_segmentation.py",
     "    new_segmentation = np.zeros_like(computed_seg).astype(np.uint64)\n", "    new_segmentation = computed_seg.astype(np.uint64)\n    computed_seg = new_segmentation\n"),
    ("c14_internal_drops_lineage_key", ["C14"], S + "features/_feature_dict.py",
     "            tracklet_key=data.get(\"tracklet_key\"),\n            lineage_key=data.get(\"lineage_key\"),", "            tracklet_key=data.get(\"tracklet_key\"),"),
    ("c15_predecessors_only", ["C15"], S + "import_export/_utils.py",
     "        ancestors = nx.ancestors(graph, node)", "        ancestors = set(graph.predecessors(node))"),
    ("c16_split_no_copy", ["C16", "C14"], S + "import_export/geff/_export.py",
     "        new_graph = tracks.graph.copy()", "        new_graph = tracks.graph.copy(as_view=False) if False else tracks.graph"),
    ("c17_fuzzy_keeps_column", ["C17"], S + "import_export/_name_mapping.py",
     "            mapping[field] = best_match\n            props_left.remove(best_match)", "            mapping[field] = best_match"),
    ("c18_frame_plus2", ["C18"], S + "candidate_graph/iou.py",
     "        if frame + 1 not in node_frame_dict:\n            continue\n        next_nodes = node_frame_dict[frame + 1]", "        if frame + 1 not in node_frame_dict:\n            continue\n        next_nodes = node_frame_dict.get(frame + 2, node_frame_dict[frame + 1])"),
    ("c18_ball_radius_strict", ["C18"], S + "candidate_graph/utils.py",
     "prev_kdtree.query_ball_tree(next_kdtree, max_edge_distance)", "prev_kdtree.query_ball_tree(next_kdtree, max_edge_distance * (1 - 1e-9))"),
    ("c19_divisions_not_removed", ["C19"], S + "utils/_segmentation_utils.py",
     "if d > 1]", "if d > 2]"),
    ("c20_nested_emit", ["C20"], S + "user_actions/user_delete_edge.py",
     "        if _top_level:\n            self.tracks.action_history.add_new_action(self)\n            self.tracks.refresh.emit()", "        if _top_level:\n            self.tracks.action_history.add_new_action(self)\n        self.tracks.refresh.emit()"),
    ("c20_undo_emits_on_false", ["C20"], S + "data_model/tracks.py",
     "        if self.action_history.redo():\n            self.refresh.emit()\n            return True\n        return False", "        done = self.action_history.redo()\n        self.refresh.emit()\n        return done"),
]


def main():
    wt = "/dev/shm/ownmut_wt"
    subprocess.run(["git", "-C", "/repo", "worktree", "remove", "--force", wt], capture_output=True)
    subprocess.run(["git", "-C", "/repo", "worktree", "add", "-q", "--detach", wt, "HEAD"], check=True)
    out = "/verif/scratch/own"
    os.makedirs(out, exist_ok=True)
    try:
        for name, props, f, old, new in M:
            path = os.path.join(wt, f)
            s = open(path).read()
            if s.count(old) != 1:
                print(f"!! {name}: pattern occurs {s.count(old)} times in {f}")
                continue
            open(path, "w").write(s.replace(old, new))
            d = subprocess.run(["git", "-C", wt, "diff", "--", "src"], capture_output=True, text=True).stdout
            os.makedirs(os.path.join(out, name), exist_ok=True)
            open(os.path.join(out, name, "patch.diff"), "w").write(d)
            open(os.path.join(out, name, "props"), "w").write(" ".join(props))
            subprocess.run(["git", "-C", wt, "checkout", "--", "src"], check=True)
            print("ok", name)
    finally:
        subprocess.run(["git", "-C", "/repo", "worktree", "remove", "--force", wt], capture_output=True)


if __name__ == "__main__":
    sys.exit(main())
