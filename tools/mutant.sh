#!/bin/bash
# usage: tools/mutant.sh <patch.diff> [--tests] [--tier quick] PROP [PROP...]
# Applies the patch to a scratch worktree of /repo (never to /repo itself), optionally
# runs the repository test-suite there, runs the given checks against it, prints one line
# per check and removes the worktree.
patch=$(realpath "$1"); shift
tests=0; tier=quick
while [[ "$1" == --* ]]; do
  case "$1" in --tests) tests=1; shift;; --tier) tier=$2; shift 2;; *) echo "bad flag $1"; exit 2;; esac
done
name=mut_$$_$(basename "$(dirname "$patch")")
wt=/dev/shm/$name
git -C /repo worktree add -q --detach "$wt" HEAD || exit 2
trap 'git -C /repo worktree remove --force "$wt" 2>/dev/null; rm -rf "$wt"' EXIT
if ! git -C "$wt" apply "$patch"; then echo "PATCH DOES NOT APPLY"; exit 2; fi
if [ $tests = 1 ]; then
  echo -n "tests: "; (cd "$wt" && PYTHONPATH=$wt/src /venv/bin/python -m pytest -q -p no:cacheprovider 2>&1 | tail -1)
fi
cd /verif
for p in "$@"; do
  out=$(FUNTRACKS_SRC=$wt/src VERIF_EVIDENCE_DIR=$wt/_ev VERIF_REPLAY_DIR=$wt/_rp /venv/bin/python -m mc.check $p --tier $tier 2>&1); code=$?
  nv=$(echo "$out" | grep -c "^VIOLATION")
  echo "$p exit=$code violations=$nv $(echo "$out" | grep -m1 "signature:" | cut -c1-220)"
done
