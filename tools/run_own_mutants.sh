#!/bin/bash
# run every own mutant: test-suite + the checks of the properties it targets
cd /verif
for d in scratch/own/*/; do
  n=$(basename $d)
  echo "=== $n"
  tools/mutant.sh $d/patch.diff --tests $(cat $d/props) 2>&1 | cut -c1-260
done
