import json,sys,glob
for f in sorted(glob.glob(f"/verif/replays/{sys.argv[1]}/*.json")):
    r=json.load(open(f))
    print(r["signature"]); print("   ", r["world"], r["seed"] if isinstance(r["seed"],str) else "forest:"+json.dumps(r["seed"]), r["history"], r["event"], "n=",r["occurrences"]); print("     ", r["detail"][:400])
