#!/bin/bash
# Re-run the quick checks recorded in each behaviour-preserving change's meta.json against
# that change (scratch worktree + FUNTRACKS_SRC; /repo is never patched). One line per change;
# every check must stay silent.
cd /verif
for d in equivalent/*/; do
  id=$(basename $d)
  props=$(/venv/bin/python -c "import json,sys; print(' '.join(json.load(open('$d/meta.json'))['quick_checks_run']))")
  res=$(tools/mutant.sh $d/patch.diff $props 2>&1 | tr '\n' ';' | cut -c1-400)
  echo "$id [$props] $res"
done
