#!/bin/bash
# Re-run the quick checks recorded in each behaviour-preserving change's meta.json against
# that change (scratch worktree + FUNTRACKS_SRC; /repo is never patched). One line per change;
# every check must stay silent.  Optional arguments: only these checks (e.g. C12 C13 C15).
only=" $* "
cd /verif
for d in equivalent/*/; do
  id=$(basename $d)
  props=$(/venv/bin/python -c "import json,sys; print(' '.join(json.load(open('$d/meta.json'))['quick_checks_run']))")
  if [ "$only" != "  " ]; then
    sel=""; for p in $props; do case "$only" in *" $p "*) sel="$sel $p";; esac; done
    props=$sel
    [ -z "$props" ] && continue
  fi
  res=$(tools/mutant.sh $d/patch.diff $props 2>&1 | tr '\n' ';' | cut -c1-400)
  echo "$id [$props] $res"
done
