#!/bin/bash
# run every check of a tier sequentially; print one line per property
tier=${1:-quick}
cd /verif
for p in C01 C02 C03 C04 C05 C06 C07 C08 C09 C10 C11 C12 C13 C14 C15 C16 C17 C18 C19 C20; do
  s=$(date +%s)
  out=$(/venv/bin/python -m mc.check $p --tier $tier 2>&1); code=$?
  e=$(date +%s)
  echo "$p exit=$code $((e-s))s $(echo "$out" | grep "^\[$p\] tier=.*states" | tail -1 | cut -c1-200)"
  echo "$out" | grep "VIOLATION\|HARNESS\|Traceback\|Error" | head -5
done
