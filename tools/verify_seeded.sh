#!/bin/bash
# usage: tools/verify_seeded.sh <dir with patch.diff demo.py> [--tier quick] PROP...
# Confirms a seeded change by hand-free procedure: applies to a scratch worktree, runs the
# repository tests, the demonstration with and without the change, then the given checks.
src=$(realpath "$1"); shift
tier=quick
if [ "$1" = "--tier" ]; then tier=$2; shift 2; fi
wt=/dev/shm/ver_$$
git -C /repo worktree add -q --detach "$wt" HEAD || exit 2
trap 'git -C /repo worktree remove --force "$wt" 2>/dev/null; rm -rf "$wt"' EXIT
echo "## $src"
if ! git -C "$wt" apply --include='src/*' "$src/patch.diff"; then echo "APPLY: FAILED"; exit 2; fi
echo "APPLY: ok ($(git -C "$wt" diff --stat -- src | tail -1))"
echo -n "TESTS with change: "; (cd "$wt" && PYTHONPATH=$wt/src /venv/bin/python -m pytest -q -p no:cacheprovider 2>&1 | tail -1)
(cd "$wt" && PYTHONPATH=$wt/src timeout 300 /venv/bin/python "$src/demo.py" >/dev/null 2>&1); echo "DEMO with change: exit=$?"
(cd /repo && PYTHONPATH=/repo/src timeout 300 /venv/bin/python "$src/demo.py" >/dev/null 2>&1); echo "DEMO without change: exit=$?"
cd /verif
for p in "$@"; do
  out=$(FUNTRACKS_SRC=$wt/src VERIF_EVIDENCE_DIR=$wt/_ev VERIF_REPLAY_DIR=$wt/_rp /venv/bin/python -m mc.check $p --tier $tier 2>&1); code=$?
  nv=$(echo "$out" | grep -c "^VIOLATION")
  echo "CHECK $p tier=$tier exit=$code violations=$nv $(echo "$out" | grep -m1 "signature:" | cut -c1-200)"
done
