#!/bin/bash
# Re-run the quick checks named in each seeded change's meta.json against that change
# (scratch worktree + FUNTRACKS_SRC; /repo is never patched). One line per change.
cd /verif
for d in seeded/*/; do
  id=$(basename $d)
  props=$(/venv/bin/python - "$d/meta.json" <<'P'
import json,sys,re
m=json.load(open(sys.argv[1]))
ps=[]
for c in m["caught_by"]:
    mm=re.match(r"(C\d+)", c.strip())
    if mm and mm.group(1) not in ps: ps.append(mm.group(1))
print(" ".join(ps))
P
)
  res=$(tools/mutant.sh $d/patch.diff $props 2>&1 | tr '\n' ';' | cut -c1-400)
  echo "$id [$props] $res"
done
