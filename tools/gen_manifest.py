#!/usr/bin/env python3
"""Generate /verif/MANIFEST.json from the table below and validate it."""
import json
import os
import sys

ROOT = os.path.dirname(os.path.dirname(os.path.abspath(__file__)))

ENGINES = {
    "E1-explore": ("mc/explore.py", "explicit-state BFS over real SolutionTracks objects (state = seed + replayed event history); every accepted and refused event of the state-dependent alphabet is fired in every distinct state; canonical-state de-duplication"),
    "E2-histories": ("mc/histories.py", "exhaustive tree of all call sequences over a finite menu {edits, undo, redo, enable, disable} up to a length bound, no state merging, lock-step comparison with a list+cursor / set reference model"),
    "E3-smallscope": ("mc/smallscope.py", "exhaustive enumeration of all inputs of a function up to a size bound (forests, subsets, label arrays, column-name lists, point sets) against brute-force reference implementations"),
}

# property -> (engine, level text, note, technique)
CHECKS = {}


def add(prop, engine, text, note, technique, design_ref):
    CHECKS[prop] = dict(engine=engine, text=text, note=note, technique=technique, design_ref=design_ref)


MC = "explicit-state model checking of the implementation (BFS over real objects, canonical-state de-duplication, all events per state)"

add("C03", "E1-explore",
    "Exhaustive bounded exploration of the real implementation: every user action with every argument tuple of the alphabet (all ordered node pairs in both temporal orders, all frames, all track ids, force on/off, paint strokes) is fired in every distinct state reachable within the depth bound from the hand seeds and from all labelled forests up to the size bound; the forest invariant is checked on every post-state and after undo/redo, the refusal/force oracle on every transition. In addition all call sequences over the C02 menus and a 5-item menu up to length 7 (quick) / 9 (thorough) are run with the invariant evaluated after every undo/redo (a timeline replayed in the wrong order creates a merge).",
    "Bounded: <=6 seed nodes, all forests <=4 (quick) / <=5 (thorough) nodes, 4 frames, BFS depth 2-3. networkx/numpy trusted.",
    MC, "DESIGN.md 4 C03")

E1NOTE = "Bounded: 8 hand seeds (<=8 nodes, incl. two nested levels of divisions) + one 1100-node chain (fixed 6-item menu) + ids around 255 / above 65535 + all labelled forests <=4 (quick) / <=5 (thorough) nodes, 4 frames, 4x6 pixel frames, BFS depth 2-3 (noseg) / 1-2 (seg). networkx/numpy/skimage trusted."

add("C01", "E1-explore",
    "Every accepted (state, edit) pair of the bounded state space is followed by undo -> redo -> undo on the same real object; after each step the observable state (nodes, edges, every registered node/edge feature incl. custom ones, array bytes) must equal the recorded pre / post state exactly. Worlds: with/without segmentation, 2D/3D, per-axis positions, pre-built FeatureDict, given non-contiguous ids, all regionprops features, ids around 255 / above 65535, two nested levels of divisions, a 258-frame movie; attribute changes in the 7th significant digit.",
    E1NOTE + " History route (tracks.undo/redo) is used, which calls action.inverse() / inverse().inverse() on the stored action objects.",
    MC, "DESIGN.md 4 C01")
add("C04", "E1-explore",
    "On every state reachable in the bounded space and after every undo/redo the partition induced by track ids is compared with an independent recomputation of maximal unbranched segments; on every transition the frame clause (ids in untouched components unchanged) is checked; the constructor clause is checked on every forest through every way of obtaining a SolutionTracks (ids computed, valid ids given and kept, Tracks -> from_tracks with / without / with partial ids); the invariant is re-evaluated after every undo/redo of all call sequences of the C02 menus (E2).",
    E1NOTE, MC, "DESIGN.md 4 C04")
add("C05", "E1-explore",
    "Same exploration as C04 (BFS, E2 undo/redo sequences, constructor variants incl. zero-based lineage ids) with the lineage partition compared with weakly connected components (independent networkx undirected recomputation) and the lineage frame clause on every transition.",
    E1NOTE, MC, "DESIGN.md 4 C05")
add("C06", "E1-explore",
    "On every reachable state and after every undo/redo: both lookups vs a scan of the graph (no missing, duplicated or stale entries), freshness of next track/lineage/node ids, and get_track_neighbors / has_track_id_at_time for every used and unused id and every t in -1..T vs a linear scan.",
    E1NOTE, MC, "DESIGN.md 4 C06")
add("C11", "E1-explore",
    "Every (state, event) pair of the bounded space whose call raises - the alphabet deliberately contains refusal inputs (missing time/track id/position, existing id, unknown node/edge, merge / third child / non-forward without force, forced edits whose later step fails, protected attributes, bad swaps, paint with a refused nested add) - is (in uint8 worlds also node ids the label array cannot hold) is followed by a comparison of the full snapshot (graph, raw attributes, array, lookups, registry, both history stacks structurally; the id counters are excluded) with the one taken before the call, and by a check that no refresh was emitted.",
    E1NOTE + " For paint the driver restores the painted pixels first (the property's proviso). Also objects imported from CSV / GEFF files; one genuine defect on objects imported from a node table + label image is recorded as KF-C11-refused-paint-drops-unregistered-attribute.",
    MC, "DESIGN.md 4 C11")
add("C20", "E1-explore",
    "A counting callback on tracks.refresh is read around every call in the bounded space: accepted top-level action / successful undo / redo = exactly one emission (payload = new node for add-node and node-creating paint), refused action = none. Nested composite actions are covered through forced add-edge/add-node, swap and paint events (incl. a stroke that changes nothing). Histories of 3 and 300 accepted edits followed by complete unwinding / rewinding / redo at the top / a new edit are judged call by call. All call sequences of the C02 menus are also run with the counter read on every call: an emission from an undo/redo for which the timeline has nothing to step to is a violation whatever the call returns.",
    E1NOTE, MC, "DESIGN.md 4 C20")

SEGNOTE = "Worlds include objects re-imported from GEFF files (features recomputed, loaded, or recomputed from stale values). Bounded: 6-7 hand seeds with rectangular masks in 4 frames of 4x6 (2D) / 2x4x6 (3D) pixels, stroke menu of DESIGN.md 3.2 (inside / whole / straddling / two masks / background x erase / every label of the frame / new label x track ids x force), BFS depth 1-3. skimage.regionprops trusted."
E2M = "explicit-state model checking of the implementation against a reference model (exhaustive enumeration of all call sequences up to a length bound, lock-step list+cursor / set model, no state merging)"

add("C02", "E2-histories",
    "All sequences over {edit_1..edit_6, undo, redo} up to length 5 (quick) / 6-7 (thorough) for three menus (forced add-edge / add-node nesting other user actions, swap, delete, set-attr; paint strokes that nest delete-node / add-node) plus all sequences over the full state-dependent alphabet + undo + redo up to length 2-3 are executed from scratch on fresh real objects in lock step with a 10-line timeline model (list of observed states + cursor, undone steps appended in reverse). Checked after every call: return value, state == timeline[cursor] (so one undo after any accepted action - however many primitives or nested user actions it contains - lands on the previous state), a False step changes nothing; at every leaf undo-until-False must visit timeline[cursor::-1]. C03-C06 invariants are re-checked after every undo/redo. Further 4-6 item menus run to length 7-9: edits that depend on each other (A, B, undo, undo, C, undo, undo[, undo]) on a chain, on lineage-changing edits and on strokes, a change in the 7th digit of a value, cuts above two nested divisions, and a 1100-node chain; histories of 3 and 300 accepted edits followed by complete unwinding / rewinding / redo at the top / a new edit after unwinding, every call against the timeline.",
    "Bounded by menu and length; no state merging (futures depend on the hidden stacks). The model/implementation binding is total within the bound: every enumerated sequence is an implementation trace.",
    E2M, "DESIGN.md 4 C02")
add("C07", "E1-explore",
    "In segmentation worlds (2D+t and 3D+t) every reachable state and every state after undo/redo is checked for label<->node one-to-one correspondence (every node labels >=1 pixel and only in its frame, every label is a node, get_pixels exact); every paint/erase transition is checked byte-for-byte against the array as painted by the driver, undo against the pre-paint bytes, redo against the painted bytes. All call sequences up to length 4 / 7 (quick) over two stroke menus are compared with the timeline model (array restored bit for bit by every undo / redo); strokes leaving 0 / 1 / 2 / 5 pixels of a 12-pixel and of a 104 640-pixel mask (erase / neighbouring label / new label, with and without scale) are checked for node removal, area, correspondence and undo.",
    SEGNOTE, MC, "DESIGN.md 4 C07")
add("C08", "E1-explore",
    "For every reachable state of segmentation worlds with scale None / isotropic / anisotropic and feature subsets {core, +circularity, +ellipse axes, all regionprops} in 2D and 3D, after every edit, undo and redo: area and position vs an independent numpy reference (count x voxel, scaled mean index), and every enabled regionprops feature vs a from-scratch SolutionTracks built on a copy of the array (exact equality). All sequences that switch area / pos / circularity / ellipse axes off and on around mask edits, undo and redo (E2, length 3-4) are held to the same oracles. One-pixel edits (corner / next to the centroid / grow) of masks of 12, 2 500 and 104 640 pixels are checked after edit, undo and redo; node ids above 65535.",
    SEGNOTE + " numpy reference uses rel_tol 1e-12; differential oracle is exact.", MC, "DESIGN.md 4 C08")
add("C09", "E1-explore",
    "For every reachable state of segmentation worlds with iou enabled (consecutive-frame and frame-skipping edges with non-trivial overlap), after every edit, undo and redo: stored IoU of every edge vs exact Fraction |A&B|/|A|B| on the array, and incremental value vs bulk value computed by a from-scratch twin with enable_features(['iou']). Enabling iou at any point of a history: all sequences over {enable, disable, strokes incl. one that makes an overlap exactly 0, add/delete node, undo, redo} up to length 3-4 (E2) are held to the same oracle. Label widths: uint8 arrays with ids whose products wrap (16*32), ids around 255 and above 2**16 whose packed pair keys / products wrap in 32 bits.",
    SEGNOTE, MC, "DESIGN.md 4 C09")
add("C10", "E2-histories",
    "All sequences up to length 3-4 (quick) / 4-5 (thorough) over {enable(F), disable(F), enable/disable(unknown, also listed after a valid key), edits, protected set-attr, undo, redo} on segmentation and non-segmentation tracks built with and without a pre-built FeatureDict, in lock step with a set model (static + enabled). After every call: registry == static+enabled, annotator active set == enabled, all values of every enabled feature equal the C04/C05/C06/C08/C09 reference oracles, raw values of disabled features unchanged by edits, unknown key -> KeyError and identical snapshot, managed attributes and time refused by set-attr whether enabled or not. Also a uint8 world with ids 16..64, and area / position switched off around a one-pixel edit of masks of 12, 2 500 and 104 640 pixels.",
    "Two genuine defects around switching the core id features of a SolutionTracks are recorded in known_findings.json (KF-C10-*) and reported as KNOWN-FINDING; everything outside those two history classes is reported as VIOLATION.",
    E2M, "DESIGN.md 4 C10")

E3M = "small-scope exhaustive enumeration of all inputs up to a size bound, each executed on the real function and compared with a brute-force reference (bounded model checking of a pure function by explicit enumeration)"

add("C13", "E3-smallscope",
    "All label arrays of shape 2x1x3 over labels {0..2} (quick) / {0..3} (thorough) x all non-empty subsets of the (time,label) pairs present x all injective assignments to node ids {0..3}/{0..4} (identity, permutations and chains such as 1->2,2->1, ids equal to other labels, label reuse across frames, unlisted labels, id 0), a 3D+t variant (2x2x1x2), uint8 source arrays with node ids 256 / 257 / 300 and six-digit labels / ids that differ by one, through relabel_segmentation directly and through tracks_from_df(df, segmentation) (which adds the 'ids equal => fast path'); oracle: per-pixel out[t,p] = node(t,in[t,p]) (+1 if id 0 present, graph shifted too), background elsewhere.",
    "Bounded array shape and id range; pandas/dask trusted.", E3M, "DESIGN.md 4 C13")
add("C17", "E3-smallscope",
    "All ordered lists of <=3 (quick) / <=4 (thorough; 16-name vocabulary, plus <=3 over all 24) distinct column names from a vocabulary built from the code's own key, display-name and value-name tables plus case variants and unrelated names, x required-key sets {[time],[time,id,parent_id]} x ndim {3,4}; same for edge maps (<=5 names of 8); wide headers of 9-17 columns (one column per node feature in each of three spellings x further columns x column orders). Oracle: flattened values of the returned map == the input columns, each exactly once, none invented; a column spelled like a required key or seg_id maps to that key.",
    "Vocabulary-bounded; difflib behaviour trusted.", E3M, "DESIGN.md 4 C17")
add("C18", "E3-smallscope",
    "All multisets of <=4 (quick) / <=5 (thorough) points on the lattice frames {0..4} x positions {0..2} (embedded in 2-D and 3-D, with and without anisotropic scale) x max distance {1,1.5,2}, and all label arrays 5x1x3 with globally unique labels from <=3/4 detections with IoU requested (int64 labels 1..4 and uint8 labels 16/32/48 whose products wrap): every pattern of empty frames and gaps occurs, incl. two populated frames on both sides of a gap; dense frames: all 9-12-point subsets of a 4x3 lattice and all 13-15-detection subsets of the 5x3 lattice. Oracle: nodes = detections with time/scaled centroid/area, edge iff next frame and distance <= max (exact on the integer lattice), IoU by pixel counting.",
    "Lattice-bounded; scipy KDTree and skimage.regionprops trusted.", E3M, "DESIGN.md 4 C18")
add("C19", "E3-smallscope",
    "ensure_unique_labels on all 65 536 arrays 4x1x2 over {0,1,2,5}, all multi-hypothesis arrays 2x2x1x2, 3D frames, three hypotheses, 5-D (h,t,z,y,x) arrays, uint8 / uint16 arrays whose offset labels pass the dtype maximum and non-C-contiguous inputs (thorough: also 3x1x3 over {0,1,3}): no label in two frames/hypotheses, per-frame partition and background unchanged. relabel_segmentation_with_track_id on all labelled forests <=4/5 nodes x {labels = ids, labels reused across frames} x {with / without a detection missing from the solution}, plus all 5-node forests with two divisions and 6-8-node seeds with nested / parallel divisions: same label iff same maximal unbranched segment, non-solution detections removed.",
    "Bounded shapes and label values.", E3M, "DESIGN.md 4 C19")

add("C12", "E3-smallscope",
    "tracks_from_df on every labelled forest <=3 (quick) / <=4 (thorough) nodes x id scheme {1..n, non-contiguous, containing 0, descending, strings in sorted and unsorted row order, non-integer floats, integers above 2**53} x parent encoding {-1, NaN, -1 on a reversed table with a non-default index, float time column} x {2D, 3D with an integer z column next to float y/x} x column naming {standard, all renamed, id renamed, an unrelated column spelled like a standard key} x custom columns {none, dense, sparse; scalar and list-valued string; two integer columns with values above 2**53 mapped to one property} x position / column order {standard, reversed}; import_from_geff on stores written with geff.write (forests x id schemes x dims x namings x {per-axis, permuted, pre-stacked position}). Oracle: nodes == source ids (or a link-preserving bijection for renumbered ids), edges == parent links, time / position in mapped order / every mapped property == source cell. Malformed tables (duplicate id, unknown parent, self link at every row; missing required column / mapping) and tampered GEFF stores (duplicate id, unknown endpoint, self link) must raise ValueError.",
    "Bounded forests and value schemes; pandas / geff / zarr trusted.", E3M, "DESIGN.md 4 C12")
add("C14", "E1-explore",
    "The distinct states of a BFS over the real objects (edited sessions: non-contiguous ids, divisions, skip edges, isolated nodes, custom features) in worlds {2D, 3D, per-axis positions, given ids, with segmentation 2D / 3D anisotropic} are each rebuilt and written and re-read as CSV, internal format and GEFF with the explicit corresponding key mapping; compared: nodes, edges, times, positions, track ids, lineage partition, loaded node/edge features, array (GEFF, internal), scale and registry (internal).",
    "GEFF round trips cost 0.3-0.5 s and run on smaller state sets than CSV/internal (all states of their own BFS bound, no sampling). Also a 65-frame movie of 64x65 pixels and ids above 2**16 (depth 0). One genuine defect is recorded as KF-C14-geff-seg-centroid-outside-mask. The empty solution is not exported.",
    MC + " + file round trip per distinct state", "DESIGN.md 4 C14")
add("C15", "E3-smallscope",
    "All labelled forests <=4 (quick) / <=5 (thorough) nodes x all 2^N node subsets x {CSV, GEFF} x {without, with segmentation}, with ids ascending, descending in time, zero-based and above 255, a frame wider than one 64-pixel chunk of the GEFF exporter, a 24-node case with wide sparse ids, a 66-frame chain (64-frame chunks of the exporter), track ids >= 256 on node ids <= 4, and a second selection exported from the same object: written node set == selection + ancestors (independent recursive parent walk), written edges == induced edges, exported array == source masked to exactly those ids (GEFF) / those nodes labelled by track (CSV tif).",
    "Quick tier runs GEFF for all forests <=3 nodes (all subsets) and single-node selections of 4-node forests; CSV everywhere. geff / zarr / tifffile trusted.",
    E3M, "DESIGN.md 4 C15")
add("C16", "E1-explore",
    "Every distinct state of a BFS over the real objects in worlds {scale None / given, single-key / per-axis position, with / without segmentation} is rebuilt and each read-only operation (export_to_csv full / subset / display names / with segmentation, export_to_geff full / subset, save_tracks, and a bundle of every query incl. get_track_neighbors and has_track_id_at_time for every id and time) is executed separately; the full snapshot (graph, raw attributes, array bytes and identity, scale value and type, registry, lookups as sets, counters, both history stacks) must be identical before and after.",
    "Bounded state sets (depth 0-1) plus a 65-frame movie of 64x65 pixels (one complete 64^3 chunk of the GEFF exporter), uint8 labels, ids around 255 / above 65535; geff / zarr / pandas trusted.", MC + " + operation bundle per distinct state", "DESIGN.md 4 C16")

# wave 10 ("sessions": state carried from one call / object to the next)
EXTRA = {
    "C03": " Two objects alive in one process (B, A, B built again; all ordered pairs of short sessions) are held to the invariant as well.",
    "C04": " Two objects alive in one process (B, A, B built again; all ordered pairs of short sessions) are held to the invariant as well.",
    "C05": " Two objects alive in one process (B, A, B built again; all ordered pairs of short sessions) are held to the invariant as well.",
    "C06": " Two objects alive in one process (B, A, B built again; all ordered pairs of short sessions) are held to the same comparison.",
    "C09": " A second menu deletes an edge while IoU is switched off and restores it by undo after IoU is on again (length 5 / 7).",
    "C11": " Delete-node is also called with its optional pixels argument (the node's own mask: accepted; a mask outside the array or for tracks without a label array: refused by the final sub-action).",
    "C12": " A measurement column loaded through the features argument, and every ordered pair of imports that share the caller's name-map dict (and DataFrame) are enumerated too.",
    "C13": " One CSVTracksBuilder object is also used for every ordered pair of small data sets (prepare + build twice).",
    "C15": " Sessions on one object (export, edit the ancestry above / below the selection, export, undo, export) are enumerated for all forests <=3 / <=4 nodes x all one- and two-node selections x every edge deletion / forward edge addition.",
    "C17": " The inference is also reached through two builder objects in a row on the same header, with the first inferred map edited in place by the caller in between.",
    "C18": " Every ordered pair of (distance, scale) settings is also run as two calls in a row on the caller's same float array.",
    "C19": " Detections outside the solution also carry a label that a solution node of another frame uses.",
    "C20": " A menu with an always-refused stroke between accepted calls checks the count of the calls that follow a refusal.",
}

NOT_APPLICABLE = {}

PENDING_REASON = "check not built yet in this round (planned, see DESIGN.md section 4); not claimed until its command exists"


def main():
    props = [json.loads(l)["id"] for l in open(os.path.join(ROOT, "properties.jsonl"))]
    checks = []
    for p in props:
        if p not in CHECKS:
            continue
        c = CHECKS[p]
        checks.append({
            "property_id": p,
            "quick_cmd": f"/venv/bin/python -m mc.check {p} --tier quick",
            "thorough_cmd": f"/venv/bin/python -m mc.check {p} --tier thorough",
            "evidence_file": f"/verif/evidence/{p}.json",
            "replay_cmd_template": "/venv/bin/python -m mc.replay {path}",
            "engine": c["engine"],
            "level_claimed": {"category": "model_checking", "text": c["text"] + EXTRA.get(p, ""), "design_ref": c["design_ref"]},
            "level_note": c["note"],
            "technique": c["technique"],
        })
    na = []
    for p in props:
        if p in CHECKS:
            continue
        na.append({"property_id": p, "reason": NOT_APPLICABLE.get(p, PENDING_REASON)})
    used = sorted({c["engine"] for c in CHECKS.values()})
    m = {
        "version": 1,
        "setup_cmd": "/venv/bin/python -c \"import sys; sys.path.insert(0, '/verif'); import mc.bind; print('funtracks bound to', mc.bind.SRC)\"",
        "hooks": {
            "guard": "FUNKELAB_FUNTRACKS_VERIF",
            "enable": "no source hooks are needed: the explorers drive public attributes of the real objects (graph, segmentation, features, annotators, action_history, refresh); mc/bind.py sets the guard variable but nothing in /repo reads it",
            "baseline_off_cmd": "cd /repo && /venv/bin/python -m pytest -ra -q -p no:cacheprovider --timeout=900 --continue-on-collection-errors",
            "source_commits": [],
            "add_only": True,
        },
        "engines": [
            {"name": e, "path": ENGINES[e][0], "kind_free_text": ENGINES[e][1],
             "serves_properties": sorted(p for p, c in CHECKS.items() if c["engine"] == e)}
            for e in used
        ],
        "checks": checks,
        "not_applicable": na,
        "notes": "All checks run /venv/bin/python on /repo's working tree (FUNTRACKS_SRC overrides, default /repo/src); genuine defects repaired by fix: commits are listed in known_findings.json under 'fixed'.",
    }
    with open(os.path.join(ROOT, "MANIFEST.json"), "w") as f:
        json.dump(m, f, indent=1)
    try:
        import jsonschema
        jsonschema.validate(m, json.load(open("/root/.vp/MANIFEST.schema.json")))
        print("MANIFEST.json valid;", len(checks), "checks,", len(na), "not claimed")
    except ImportError:
        print("written (jsonschema not available for validation)")


if __name__ == "__main__":
    sys.exit(main())
