#!/bin/bash
# usage: tools/verify_equiv.sh <dir with patch.diff demo.py> PROP...
# A behaviour-preserving change: repository tests and the demo must pass with it, and every
# check must stay silent (exit 0).
src=$(realpath "$1"); shift
wt=/dev/shm/eqv_$$
git -C /repo worktree add -q --detach "$wt" HEAD || exit 2
trap 'git -C /repo worktree remove --force "$wt" 2>/dev/null; rm -rf "$wt"' EXIT
echo "## $src"
if ! git -C "$wt" apply --include='src/*' "$src/patch.diff"; then echo "APPLY: FAILED"; exit 2; fi
echo -n "TESTS with change: "; (cd "$wt" && PYTHONPATH=$wt/src /venv/bin/python -m pytest -q -p no:cacheprovider 2>&1 | tail -1)
(cd "$wt" && PYTHONPATH=$wt/src timeout 600 /venv/bin/python "$src/demo.py" >/dev/null 2>&1); echo "DEMO with change: exit=$?"
cd /verif
for p in "$@"; do
  out=$(FUNTRACKS_SRC=$wt/src VERIF_EVIDENCE_DIR=$wt/_ev VERIF_REPLAY_DIR=$wt/_rp /venv/bin/python -m mc.check $p --tier quick 2>&1); code=$?
  nv=$(echo "$out" | grep -c "^VIOLATION")
  echo "CHECK $p exit=$code violations=$nv $(echo "$out" | grep -m2 "signature:\|detail:" | tr '\n' ' ' | cut -c1-330)"
done
