"""Bind the explorers to the funtracks source tree under check.

Importing this module puts $FUNTRACKS_SRC (default /repo/src) at sys.path[0],
imports funtracks from there and refuses to continue if it came from anywhere
else.  Also silences tqdm and makes runs reproducible.
"""
from __future__ import annotations

import hashlib
import os
import subprocess
import sys
import warnings

os.environ.setdefault("TQDM_DISABLE", "1")
os.environ.setdefault("PYTHONHASHSEED", "0")
# guard for verification-only hooks in /repo (none exist at present)
os.environ.setdefault("FUNKELAB_FUNTRACKS_VERIF", "1")

SRC = os.path.realpath(os.environ.get("FUNTRACKS_SRC", "/repo/src"))
if SRC in sys.path:
    sys.path.remove(SRC)
sys.path.insert(0, SRC)

warnings.filterwarnings("ignore")

import funtracks  # noqa: E402

_where = os.path.realpath(os.path.dirname(funtracks.__file__))
if not _where.startswith(SRC + os.sep):
    raise SystemExit(
        f"HARNESS ERROR: funtracks imported from {_where}, expected under {SRC}"
    )


def tree_fingerprint() -> dict:
    """Identify the tree the check ran against (git HEAD + hash of the diff)."""
    root = os.path.dirname(SRC)
    out = {"src": SRC}
    try:
        head = subprocess.run(
            ["git", "-C", root, "rev-parse", "HEAD"],
            capture_output=True, text=True, timeout=20,
        ).stdout.strip()
        diff = subprocess.run(
            ["git", "-C", root, "diff", "HEAD", "--", "src"],
            capture_output=True, timeout=20,
        ).stdout
        out["head"] = head
        out["diff_sha1"] = hashlib.sha1(diff).hexdigest()
        out["dirty"] = bool(diff)
    except Exception as e:  # noqa: BLE001
        out["error"] = repr(e)
    # also hash the python sources actually imported
    h = hashlib.sha1()
    for dp, _dn, fns in sorted(os.walk(os.path.join(SRC, "funtracks"))):
        for fn in sorted(fns):
            if fn.endswith(".py"):
                with open(os.path.join(dp, fn), "rb") as f:
                    h.update(fn.encode())
                    h.update(f.read())
    out["src_sha1"] = h.hexdigest()
    return out
