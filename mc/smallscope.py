"""E3: exhaustive small-scope enumeration of function inputs against brute-force
reference implementations (C12 C13 C15 C17 C18 C19)."""
from __future__ import annotations

import itertools
import math
import os
import shutil
import tempfile
import time

import networkx as nx
import numpy as np

from . import bind  # noqa: F401
from . import canon, events, explore, worlds


def vio(prop, clause, detail, case, check, cls=""):
    sig = f"{prop}|{clause}|{check}|{cls}"
    return {"property": prop, "clause": clause, "detail": detail, "signature": sig, "engine": "E3",
            "check": check, "case": case, "depth": len(repr(case)), "history": [], "event": [check],
            "world": None, "seed": None}


# ===========================================================================
# C17  inferred column mappings

NODE_VOCAB = ["time", "id", "parent_id", "seg_id", "area", "Area", "pos", "x", "y", "z", "track_id", "tracklet_id",
              "lineage_id", "circularity", "Circularity", "major_axis", "Time", "t", "X", "Y", "ID", "label", "foo", "score",
              "perimeter", "volume", "ellipse_axis_radii", "Score"]
NODE_VOCAB_THIN = ["time", "id", "parent_id", "seg_id", "area", "Area", "x", "y", "z", "track_id", "lineage_id",
                   "Time", "t", "X", "ID", "foo", "perimeter", "circularity"]
EDGE_VOCAB = ["iou", "IoU", "IOU", "overlap", "w", "Iou", "score", "i"]


def _flatten_values(m):
    out = []
    for v in m.values():
        if isinstance(v, list):
            out.extend(v)
        else:
            out.append(v)
    return out


def _c17_partition(cols, m, case, check):
    out = []
    vals = _flatten_values(m)
    lost = [c for c in cols if c not in vals]
    dup = sorted({v for v in vals if vals.count(v) > 1})
    invented = [v for v in vals if v not in cols]
    if lost:
        out.append(vio("C17", "column-lost", f"columns {cols}: {lost} missing from map {m}", case, check, "session"))
    if dup:
        out.append(vio("C17", "column-used-twice", f"columns {cols}: {dup} assigned to several keys in {m}", case, check, "session"))
    if invented:
        out.append(vio("C17", "column-invented", f"columns {cols}: {invented} not a source column in {m}", case, check, "session"))
    return out


def c17_builder_case(case):
    """the inference reached through the builder objects: builder 1 infers a map for a header, the
    caller edits that map in place (as the documentation of prepare() suggests), then a second
    builder infers the map for the same header: it must again use every column exactly once"""
    import pandas as pd
    from funtracks.import_export import CSVTracksBuilder
    _k, cols, edit = case
    cols = list(cols)
    df = pd.DataFrame({c: [0, 1] for c in cols})
    b1 = CSVTracksBuilder()
    try:
        b1.prepare(df)
    except ValueError:
        return []  # a required key cannot be inferred from this header
    except Exception as e:  # noqa: BLE001
        return [vio("C17", "raises", f"{type(e).__name__}: {e}", case, "builder.prepare", "")]
    m1 = b1.node_name_map
    out = _c17_partition(cols, m1, case, "builder.prepare")
    if out:
        return out
    keys = list(m1)
    if edit == "delete-all":
        for k in keys:
            del m1[k]
    elif edit == "first-column-everywhere":
        for k in keys:
            m1[k] = cols[0]
    elif edit == "clear-lists":
        for k in keys:
            if isinstance(m1[k], list):
                m1[k].clear()
            else:
                m1[k] = None
    b2 = CSVTracksBuilder()
    try:
        b2.prepare(pd.DataFrame({c: [0, 1] for c in cols}))
    except Exception as e:  # noqa: BLE001
        return [vio("C17", "raises", f"second builder, same header, after the caller edited the first map ({edit}): {type(e).__name__}: {e}", case, "builder.prepare-second", edit)]
    return _c17_partition(cols, b2.node_name_map, case, "builder.prepare-second")


def c17_case(case):
    """case = (kind, cols, required, ndim) -> list of violations"""
    from funtracks.import_export._name_mapping import infer_edge_name_map, infer_node_name_map
    from funtracks.import_export._utils import get_default_key_to_feature_mapping
    if case[0] == "builder":
        return c17_builder_case(case)
    kind, cols, required, ndim = case
    cols = list(cols)
    feats = get_default_key_to_feature_mapping(ndim, display_name=False)
    out = []
    try:
        if kind == "node":
            m = infer_node_name_map(list(cols), list(required), feats)
        else:
            m = infer_edge_name_map(list(cols), feats)
    except Exception as e:  # noqa: BLE001
        return [vio("C17", "raises", f"{type(e).__name__}: {e}", case, "infer_" + kind, "")]
    vals = _flatten_values(m)
    lost = [c for c in cols if c not in vals]
    dup = sorted({v for v in vals if vals.count(v) > 1})
    invented = [v for v in vals if v not in cols]
    if lost:
        out.append(vio("C17", "column-lost", f"columns {cols}: {lost} missing from map {m}", case, "infer_" + kind,
                       _lost_class(cols, lost, m)))
    if dup:
        out.append(vio("C17", "column-used-twice", f"columns {cols}: {dup} assigned to several keys in {m}", case, "infer_" + kind, ""))
    if invented:
        out.append(vio("C17", "column-invented", f"columns {cols}: {invented} not a source column in {m}", case, "infer_" + kind, ""))
    if kind == "node":
        for key in list(required) + ["seg_id"]:
            if key in cols and m.get(key) != key:
                out.append(vio("C17", "exact-name-not-preferred", f"columns {cols}: column {key!r} exists but map[{key!r}] = {m.get(key)!r}", case, "infer_node", key))
    return out


def _lost_class(cols, lost, m):
    # which key swallowed the lost column: another column maps to a key that the lost
    # one would also match
    return "overwritten-match"


def c17_cases(tier):
    q = tier == "quick"
    k = 3 if q else 4
    vocab = NODE_VOCAB if q else NODE_VOCAB_THIN
    for ndim in (3, 4):
        for required in (("time",), ("time", "id", "parent_id")):
            for n in range(0, k + 1):
                for cols in itertools.permutations(vocab, n):
                    yield ("node", cols, required, ndim)
    # four- and five-column tables over the names that can displace one another in a chain
    # (a column spelled like one feature key but closest to another feature's display name)
    focus = ["time", "area", "perimeter", "circularity", "volume", "Area", "pos", "x", "id"]
    for ndim in (3, 4):
        for required in (("time",), ("time", "id", "parent_id")):
            for n in (4, 5) if not q else (4,):
                for cols in itertools.permutations(focus, n):
                    yield ("node", cols, required, ndim)
    if not q:
        for ndim in (3, 4):
            for required in (("time",), ("time", "id", "parent_id")):
                for n in range(0, 4):
                    for cols in itertools.permutations(NODE_VOCAB, n):
                        yield ("node", cols, required, ndim)
    for ndim in (3, 4):
        for n in range(0, (4 if q else 6)):
            for cols in itertools.permutations(EDGE_VOCAB, n):
                yield ("edge", cols, (), ndim)
    # through the builder objects, two builders in a row on the same header with the first map
    # edited in place by the caller in between
    base = ["time", "id", "parent_id"]
    others = [c for c in (NODE_VOCAB if not q else NODE_VOCAB_THIN) if c not in base]
    for n in range(0, 3):
        for extra in itertools.permutations(others, n):
            for edit in ("delete-all", "first-column-everywhere", "clear-lists"):
                yield ("builder", tuple(base) + extra, edit)
                if n:
                    yield ("builder", extra + tuple(base), edit)
    # wide headers: a column for every node feature (so that every slot of the map gets filled),
    # each feature spelled as its key / its display or value names / those names in upper case,
    # with the required keys and seg_id, 0-2 further columns, in three column orders
    from funtracks.import_export._utils import get_default_key_to_feature_mapping
    for ndim in (3, 4):
        feats = get_default_key_to_feature_mapping(ndim, display_name=False)
        keys = [k for k in feats if k != "iou"]
        spell = {}
        for k in keys:
            f = feats[k]
            names = list(f.get("value_names") or [f.get("display_name")])
            spell[k] = [[k], names, [x.upper().replace(" ", "_") for x in names]]
        for choice in itertools.product((0, 1, 2), repeat=len(keys)):
            body = [c for k, i in zip(keys, choice) for c in spell[k][i]]
            for extra in ((), ("note",), ("intensity_mean", "comment")):
                for required in (("time",), ("time", "id", "parent_id")):
                    if q and required != ("time",) and extra != ("note",):
                        continue
                    cols = list(required) + ["seg_id"] + body + list(extra)
                    if len(set(cols)) != len(cols):
                        continue
                    yield ("node", tuple(cols), required, ndim)
                    yield ("node", tuple(reversed(cols)), required, ndim)
                    if not q:
                        yield ("node", tuple(cols[3:] + cols[:3]), required, ndim)


# ===========================================================================
# C19 label utilities

def c19_unique_case(case):
    from funtracks.utils import ensure_unique_labels
    kind, shape, flat, multiseg = case[:4]
    arr = np.array(flat, dtype=np.int64).reshape(shape)
    if len(case) > 4 and case[4] in ("uint8", "uint16"):
        # narrow label images whose labels, once offset frame by frame, pass the dtype's maximum
        arr = arr.astype(case[4])
    if len(case) > 4 and case[4] == "noncontig":
        # the same values in a non-C-contiguous array (first two axes stored swapped)
        arr = np.ascontiguousarray(np.swapaxes(arr, 0, 1)).swapaxes(0, 1)
    orig = arr.copy()
    out = []
    try:
        res = ensure_unique_labels(arr, multiseg=multiseg)
    except Exception as e:  # noqa: BLE001
        return [vio("C19", "raises", f"{type(e).__name__}: {e}", case, "ensure_unique_labels")]
    # (whether the input array is modified is not part of the property: the docstring even
    # says "in place"; partition and uniqueness are judged on the returned array vs a copy)
    if res.shape != orig.shape:
        return out + [vio("C19", "shape-changed", f"{res.shape} != {orig.shape}", case, "ensure_unique_labels")]
    nlead = 2 if multiseg else 1
    frames_o = orig.reshape((-1, *orig.shape[nlead:]))
    frames_r = np.asarray(res).reshape((-1, *orig.shape[nlead:]))
    seen = {}
    for i in range(frames_r.shape[0]):
        for lab in np.unique(frames_r[i]):
            if lab == 0:
                continue
            if int(lab) in seen:
                has_empty = any(not frames_o[j].any() for j in range(frames_o.shape[0]))
                out.append(vio("C19", "label-in-two-frames", f"label {int(lab)} occurs in frames {seen[int(lab)]} and {i}; input {orig.tolist()} output {np.asarray(res).tolist()}",
                               case, "ensure_unique_labels", "after-empty-frame" if has_empty else "no-empty-frame"))
                return out
            seen[int(lab)] = i
        # partition unchanged
        fo, fr = frames_o[i].ravel(), frames_r[i].ravel()
        if not np.array_equal(fo == 0, fr == 0):
            out.append(vio("C19", "background-changed", f"frame {i}: {fo.tolist()} -> {fr.tolist()}", case, "ensure_unique_labels"))
            return out
        eq_o = fo[:, None] == fo[None, :]
        eq_r = fr[:, None] == fr[None, :]
        if not np.array_equal(eq_o, eq_r):
            out.append(vio("C19", "partition-changed", f"frame {i}: {fo.tolist()} -> {fr.tolist()}", case, "ensure_unique_labels"))
            return out
    return out


def c19_unique_cases(tier):
    q = tier == "quick"
    vals = (0, 1, 2, 5)
    shape = (4, 1, 2) if q else (4, 1, 2)
    n = int(np.prod(shape))
    for flat in itertools.product(vals, repeat=n):
        yield ("unique", shape, flat, False)
    shape = (2, 2, 1, 2)
    for flat in itertools.product(vals, repeat=8):
        yield ("unique", shape, flat, True)
    # 3D frames (t, z, y, x) and three hypotheses with a single frame each
    for flat in itertools.product((0, 1, 2), repeat=8):
        yield ("unique", (2, 2, 1, 2), flat, False)
    for flat in itertools.product((0, 1, 2), repeat=6):
        yield ("unique", (3, 1, 1, 2), flat, True)
    for flat in itertools.product((0, 1, 2), repeat=8):
        yield ("unique", (2, 2, 1, 2), flat, True, "noncontig")
        yield ("unique", (2, 2, 1, 2), flat, False, "noncontig")
    # several hypotheses of 3D frames: (h, t, z, y, x)
    for flat in itertools.product((0, 1, 2), repeat=8):
        yield ("unique", (2, 1, 2, 1, 2), flat, True)
        yield ("unique", (1, 2, 2, 1, 2), flat, True)
    for flat in itertools.product((0, 44, 100, 200), repeat=6):
        yield ("unique", (3, 1, 2), flat, False, "uint8")
    for flat in itertools.product((0, 30000, 65535), repeat=6):
        yield ("unique", (3, 1, 2), flat, False, "uint16")
    for flat in itertools.product((0, 100, 200), repeat=4):
        yield ("unique", (2, 2, 1, 1), flat, True, "uint8")
    if not q:
        shape = (3, 1, 3)
        for flat in itertools.product((0, 1, 3), repeat=9):
            yield ("unique", shape, flat, False)


def _forest_graph(seed):
    g = nx.DiGraph()
    for n, (t, _r) in seed["nodes"].items():
        g.add_node(n, time=t)
    g.add_edges_from(seed["edges"])
    return g


def c19_relabel_case(case):
    """case = (seed_json, extra_mode): detections = forest nodes + optional extra
    detections missing from the solution; labels reused across frames"""
    from funtracks.utils import relabel_segmentation_with_track_id
    kind, seed_j, mode = case
    seed = worlds.seed_from_json(seed_j)
    g = _forest_graph(seed)
    T = max([3] + [t + 1 for t, _r in seed["nodes"].values()])
    Wd = max(8, len(seed["nodes"]) + 1)
    seg = np.zeros((T, 1, Wd), dtype=np.int64)
    # each node gets pixel column = node index, label = seg_id (reused across frames when mode has 'reuse')
    col = {}
    for i, n in enumerate(sorted(g.nodes)):
        col[n] = i
        t = g.nodes[n]["time"]
        sid = n if "reuse" not in mode else (i % 2) + 1 + 2 * 0 + (10 if False else 0)
        if "reuse" in mode:
            # labels unique within a frame, reused across frames
            same_frame = [m for m in sorted(g.nodes) if g.nodes[m]["time"] == t]
            sid = same_frame.index(n) + 1
        g.nodes[n]["seg_id"] = sid
        seg[t, 0, i] = sid
    if "xother@" in mode:
        # a detection that is not in the solution and carries a label that a solution node of
        # ANOTHER frame uses (labels are only unique within a frame)
        tx = int(mode.split("@")[1])
        here = {int(v) for v in seg[tx].ravel() if v}
        elsewhere = sorted({int(v) for t in range(T) if t != tx for v in seg[t].ravel() if v} - here)
        if not elsewhere:
            return []
        seg[tx, 0, Wd - 1] = elsewhere[0]
    elif "extra" in mode:
        # a detection that is not in the solution, in frame 0, label not used in that frame
        seg[0, 0, Wd - 1] = 7
    try:
        res = relabel_segmentation_with_track_id(g, seg)
    except Exception as e:  # noqa: BLE001
        return [vio("C19", "raises", f"{type(e).__name__}: {e}", case, "relabel_with_track_id")]
    out = []
    segs = worlds.segments(g)
    cls = {n: i for i, s in enumerate(segs) for n in s}
    lab = {}
    for n in g.nodes:
        t = g.nodes[n]["time"]
        v = int(res[t, 0, col[n]])
        if v == 0:
            out.append(vio("C19", "solution-detection-removed", f"node {n} has label 0", case, "relabel_with_track_id"))
            return out
        lab[n] = v
    for a in g.nodes:
        for b in g.nodes:
            if (lab[a] == lab[b]) != (cls[a] == cls[b]):
                out.append(vio("C19", "track-label-mismatch", f"nodes {a},{b}: labels {lab[a]},{lab[b]} but same-segment={cls[a] == cls[b]}", case, "relabel_with_track_id"))
                return out
    used = np.zeros_like(seg, dtype=bool)
    for n in g.nodes:
        used[g.nodes[n]["time"], 0, col[n]] = True
    if np.any(res[~used] != 0):
        out.append(vio("C19", "non-solution-detection-kept", f"pixels outside solution nodes are non-zero: {res.tolist()}", case, "relabel_with_track_id"))
    return out


def c19_relabel_cases(tier):
    q = tier == "quick"
    for seed in worlds.forests(4 if q else 5, 3, 1):
        sj = worlds.seed_to_json(seed)
        for mode in ("plain", "reuse", "extra", "reuse+extra", "xother@0", "xother@1", "xother@2", "reuse+xother@0", "reuse+xother@1", "reuse+xother@2"):
            yield ("relabel", sj, mode)
    # several divisions in one graph: all 5-node forests with two divisions (quick; part of the
    # full enumeration in the thorough tier), the nested and the side-by-side hand seeds
    many = [worlds.SEEDS["nested"], worlds.SEEDS["twodiv"], worlds.SEEDS["fix6"]]
    if q:
        for seed in worlds.forests(5, 3, 5):
            outdeg = {}
            for u, _v in seed["edges"]:
                outdeg[u] = outdeg.get(u, 0) + 1
            if sum(1 for d in outdeg.values() if d == 2) >= 2:
                many.append(seed)
    for seed in many:
        sj = worlds.seed_to_json(seed)
        for mode in ("plain", "reuse", "extra", "reuse+extra"):
            yield ("relabel", sj, mode)


# ===========================================================================
# C18 candidate graph

def c18_points_case(case):
    from funtracks.candidate_graph import compute_graph_from_points_list
    if case[0] == "points2":
        # two calls in a row on the caller's same (float) array: different distance / scale
        _k, pts, maxd_a, scale_a, maxd_b, scale_b, ndim = case
        arr = np.array([[t] + [0] * (ndim - 2) + [x] for t, x in pts], dtype=float).reshape((-1, ndim))
        out = []
        for maxd, scale in ((maxd_a, scale_a), (maxd_b, scale_b)):
            sc = ([1.0] + [2.0] * (ndim - 2) + [0.5]) if scale else None
            try:
                g = compute_graph_from_points_list(arr, maxd, scale=sc)
            except Exception as e:  # noqa: BLE001
                return out + [vio("C18", "raises", f"{type(e).__name__}: {e}", case, "points-second-call", _gap_class(pts))]
            out += _c18_points_judge(g, pts, maxd, scale, sc, ndim, case, "points-second-call")
            if out:
                return out
        return out
    kind, pts, maxd, scale, ndim = case
    # pts: tuple of (t, x) lattice points; embed into (t, y, x) or (t, z, y, x)
    arr = []
    for t, x in pts:
        row = [t] + [0] * (ndim - 2) + [x]
        arr.append(row)
    arr = np.array(arr, dtype=float).reshape((-1, ndim))
    sc = None
    if scale:
        sc = [1.0] + [2.0] * (ndim - 2) + [0.5]
    try:
        g = compute_graph_from_points_list(arr, maxd, scale=sc)
    except Exception as e:  # noqa: BLE001
        if len(pts) == 0:
            return []
        return [vio("C18", "raises", f"{type(e).__name__}: {e}", case, "points", _gap_class(pts))]
    return _c18_points_judge(g, pts, maxd, scale, sc, ndim, case, "points")


def _c18_points_judge(g, pts, maxd, scale, sc, ndim, case, check):
    out = []
    if sorted(g.nodes) != list(range(len(pts))):
        out.append(vio("C18", "nodes", f"nodes {sorted(g.nodes)} for {len(pts)} points", case, check))
        return out
    xs = [x * (0.5 if scale else 1.0) for _t, x in pts]
    for i, (t, x) in enumerate(pts):
        d = g.nodes[i]
        if d["time"] != t or not _feq([float(v) for v in d["pos"]], [0.0] * (ndim - 2) + [xs[i]]):
            out.append(vio("C18", "node-attrs", f"node {i}: {d} for point {(t, x)} scale {sc}", case, check))
            return out
    exp = set()
    for i, (ti, _xi) in enumerate(pts):
        for j, (tj, _xj) in enumerate(pts):
            if tj == ti + 1 and abs(xs[i] - xs[j]) <= maxd:
                exp.add((i, j))
    got = set(g.edges)
    if got != exp:
        extra, missing = sorted(got - exp), sorted(exp - got)
        cl = "extra" if extra else "missing"
        out.append(vio("C18", f"edges-{cl}", f"points {pts} maxd {maxd}: extra {extra} missing {missing}", case, check, _gap_class(pts)))
    return out


def _feq(a, b):
    return len(a) == len(b) and all(x == y or math.isclose(x, y, rel_tol=1e-12, abs_tol=1e-12) for x, y in zip(a, b))


def _gap_class(pts):
    ts = sorted({t for t, _ in pts})
    if not ts:
        return "empty"
    gaps = any(b - a > 1 for a, b in zip(ts, ts[1:]))
    return "frame-gap" if gaps else "contiguous"


def c18_points_cases(tier):
    q = tier == "quick"
    # 5 frames so that gaps with >= 2 populated frames on both sides occur (0,1,_,3,4)
    lattice = [(t, x) for t in range(5) for x in range(3)]
    nmax = 4 if q else 5
    for n in range(1, nmax + 1):
        for pts in itertools.combinations_with_replacement(lattice, n):
            for maxd in ((1.0, 1.5) if q else (1.0, 1.5, 2.0)):
                yield ("points", pts, maxd, False, 3)
            if n <= 3:
                yield ("points", pts, 1.0, True, 3)
                yield ("points", pts, 1.0, False, 4)
                yield ("points", pts, 1.0, True, 4)
    # the caller's array used for two calls in a row (every ordered pair of settings)
    lattice2 = [(t, x) for t in range(3) for x in range(3)]
    settings = [(1.0, False), (1.5, False), (1.0, True), (2.0, True)]
    for n in range(1, 4 if q else 5):
        for pts in itertools.combinations_with_replacement(lattice2, n):
            for (ma, sa) in settings:
                for (mb, sb) in settings:
                    yield ("points2", pts, ma, sa, mb, sb, 3)
    # dense frames: 9 to 12 points on a 4 x 3 lattice (ids up to 11, three points per frame),
    # listed in time order and in reversed order
    lattice = [(t, x) for t in range(4) for x in range(3)]
    for n in range(9, 13):
        for pts in itertools.combinations(lattice, n):
            yield ("points", pts, 1.0, False, 3)
            yield ("points", tuple(reversed(pts)), 1.5, False, 3)


def c18_seg_case(case):
    from funtracks.candidate_graph import compute_graph_from_seg
    kind, flat, maxd, scale = case[:4]
    T, Wd = 5, 3
    seg = np.array(flat, dtype=np.int64).reshape((T, 1, Wd))
    if len(case) > 4 and case[4] == "u8":
        # a narrow label dtype with label values whose products wrap (16 * 32 = 512 = 0 mod 256)
        seg = (seg * 16).astype(np.uint8)
    sc = [1.0, 1.0, 2.0] if scale else None
    try:
        g = compute_graph_from_seg(seg, maxd, iou=True, scale=sc)
    except Exception as e:  # noqa: BLE001
        if not seg.any():
            return []
        return [vio("C18", "raises", f"{type(e).__name__}: {e}", case, "seg", "")]
    out = []
    dets = {}
    for t in range(T):
        for lab in np.unique(seg[t]):
            if lab:
                idx = np.nonzero(seg[t] == lab)
                dets[int(lab)] = (t, [float(np.mean(a)) * (s if sc else 1.0) for a, s in zip(idx, (sc or [1, 1, 1])[1:])],
                                  len(idx[0]) * (float(np.prod(sc[1:])) if sc else 1.0))
    if sorted(g.nodes) != sorted(dets):
        return [vio("C18", "nodes", f"nodes {sorted(g.nodes)} vs detections {sorted(dets)}", case, "seg")]
    for n, (t, pos, area) in dets.items():
        d = g.nodes[n]
        if d["time"] != t or not _feq([float(v) for v in d["pos"]], pos) or not _feq([float(d["area"])], [area]):
            out.append(vio("C18", "node-attrs", f"node {n}: {d} expected time {t} pos {pos} area {area}", case, "seg"))
            return out
    exp = {}
    for a, (ta, pa, _) in dets.items():
        for b, (tb, pb, _) in dets.items():
            if tb == ta + 1 and float(np.linalg.norm(np.array(pa) - np.array(pb))) <= maxd:
                A = seg[ta] == a
                B = seg[tb] == b
                exp[(a, b)] = float(np.sum(A & B)) / float(np.sum(A | B))
    got = set(g.edges)
    if got != set(exp):
        extra, missing = sorted(got - set(exp)), sorted(set(exp) - got)
        ts = sorted({t for t, _, _ in dets.values()})
        gaps = any(b - a > 1 for a, b in zip(ts, ts[1:]))
        out.append(vio("C18", "edges-" + ("extra" if extra else "missing"), f"seg {seg.tolist()} maxd {maxd}: extra {extra} missing {missing}", case, "seg",
                       "frame-gap" if gaps else "contiguous"))
        return out
    for e, v in exp.items():
        gv = g.edges[e].get("iou")
        if gv is None or not _feq([float(gv)], [v]):
            out.append(vio("C18", "iou", f"edge {e}: iou {gv} expected {v}; seg {seg.tolist()}", case, "seg"))
            return out
    return out


def c18_seg_cases(tier):
    q = tier == "quick"
    T, Wd = 5, 3
    # all label arrays with globally unique labels from <= 3 (quick) / 4 (thorough) detections:
    # a detection = a label painted on a contiguous run of pixels in one frame
    runs = [(t, a, b) for t in range(T) for a in range(Wd) for b in range(a + 1, Wd + 1)]
    nmax = 3 if q else 4
    seen = set()
    for n in range(1, nmax + 1):
        for combo in itertools.combinations(runs, n):
            seg = np.zeros((T, 1, Wd), dtype=np.int64)
            ok = True
            for lab, (t, a, b) in enumerate(combo, start=1):
                if seg[t, 0, a:b].any():
                    ok = False
                    break
                seg[t, 0, a:b] = lab
            if not ok:
                continue
            key = seg.tobytes()
            if key in seen:
                continue
            seen.add(key)
            flat = tuple(int(v) for v in seg.ravel())
            yield ("seg", flat, 1.0, False)
            if n <= 2 or not q:
                yield ("seg", flat, 2.0, True)
            if n <= 3:
                yield ("seg", flat, 1.0, False, "u8")
    # dense frames: 13 to 15 single-pixel detections on the 5 x 3 lattice (labels up to 15)
    cells = [(t, x) for t in range(T) for x in range(Wd)]
    for n in range(13, 16):
        for combo in itertools.combinations(cells, n):
            seg = np.zeros((T, 1, Wd), dtype=np.int64)
            for lab, (t, x) in enumerate(combo, start=1):
                seg[t, 0, x] = lab
            yield ("seg", tuple(int(v) for v in seg.ravel()), 1.0, False)


# ===========================================================================
# C13 relabelling on import

def c13_case(case):
    from funtracks.import_export._import_segmentation import relabel_segmentation
    if case[0] == "builder2":
        return c13_builder_case(case)
    kind, shape, flat, assign = case[:4]  # assign: tuple of ((t, label), node_id)
    seg = np.array(flat, dtype=np.int64).reshape(shape)
    if len(case) > 4 and case[4] == "u8":
        seg = seg.astype(np.uint8)  # node ids may be wider than the dtype of the source labels
    out = []
    if kind == "direct":
        g = nx.DiGraph()
        node_ids, seg_ids, times = [], [], []
        for (t, lab), nid in assign:
            g.add_node(nid, time=t)
            node_ids.append(nid), seg_ids.append(lab), times.append(t)
        if not node_ids:
            return []
        orig = seg.copy()
        try:
            res = relabel_segmentation(seg, g, np.array(node_ids), np.array(seg_ids), np.array(times))
        except Exception as e:  # noqa: BLE001
            return [vio("C13", "raises", f"{type(e).__name__}: {e}", case, "relabel_segmentation")]
        off = 1 if 0 in node_ids else 0
        exp = np.zeros(orig.shape, dtype=np.int64)
        for (t, lab), nid in assign:
            exp[t][orig[t] == lab] = nid + off
        if not np.array_equal(np.asarray(res).astype(np.int64), exp):
            out.append(vio("C13", "pixels", f"seg {orig.tolist()} assign {assign}: got {np.asarray(res).tolist()} expected {exp.tolist()}", case, "relabel_segmentation",
                           _c13_class(assign, orig)))
        if sorted(g.nodes) != sorted(n + off for n in node_ids):
            out.append(vio("C13", "graph-not-shifted", f"graph nodes {sorted(g.nodes)} expected {sorted(n + off for n in node_ids)}", case, "relabel_segmentation"))
        return out
    # through tracks_from_df
    from funtracks.import_export.csv._import import tracks_from_df
    if not assign:
        return []
    df = _c13_table(seg, assign)
    orig = seg.copy()
    try:
        tr = tracks_from_df(df, segmentation=seg.copy(), node_name_map={"time": "time", "pos": ["y", "x"], "id": "id", "parent_id": "parent_id", "seg_id": "seg_id"})
    except Exception as e:  # noqa: BLE001
        return [vio("C13", "raises", f"{type(e).__name__}: {e}", case, "tracks_from_df", _c13_class(assign, orig))]
    return _c13_judge(tr, orig, assign, case, "tracks_from_df")


def _c13_table(seg, assign):
    import pandas as pd
    rows = []
    for (t, lab), nid in assign:
        idx = np.nonzero(seg[t] == lab)
        # position = one pixel of the mask (the importer samples the label at the position;
        # a centroid may fall outside a non-convex mask)
        rows.append({"time": t, "y": float(idx[0][0]), "x": float(idx[1][0]), "id": nid, "parent_id": -1, "seg_id": lab})
    return pd.DataFrame(rows)


def c13_builder_case(case):
    """one CSVTracksBuilder instance used for two data sets, one after the other
    (prepare + build each): each result must be the relabelling of *its* source array"""
    from funtracks.import_export import CSVTracksBuilder
    _k, shape, flat_a, assign_a, flat_b, assign_b = case
    builder = CSVTracksBuilder()
    out = []
    for which, flat, assign in (("first", flat_a, assign_a), ("second", flat_b, assign_b)):
        seg = np.array(flat, dtype=np.int64).reshape(shape)
        df = _c13_table(seg, assign)
        orig = seg.copy()
        try:
            builder.prepare(df, seg)
            tr = builder.build(df, seg)
        except Exception as e:  # noqa: BLE001
            return [vio("C13", "raises", f"{which} data set of one builder: {type(e).__name__}: {e}", case, "builder-reused", which)]
        out = _c13_judge(tr, orig, assign, case, "builder-reused", which)
        if out:
            return out
    return out


def _c13_judge(tr, orig, assign, case, check, prefix=""):
    out = []
    node_ids = [nid for _, nid in assign]
    off = 1 if 0 in node_ids else 0
    exp = np.zeros_like(orig)
    for (t, lab), nid in assign:
        exp[t][orig[t] == lab] = nid + off
    if not np.array_equal(np.asarray(tr.segmentation).astype(np.int64), exp):
        out.append(vio("C13", "pixels", f"seg {orig.tolist()} assign {assign}: got {np.asarray(tr.segmentation).tolist()} expected {exp.tolist()}", case, check,
                       prefix + _c13_class(assign, orig)))
    if sorted(int(n) for n in tr.graph.nodes) != sorted(n + off for n in node_ids):
        out.append(vio("C13", "graph-not-shifted", f"graph nodes {sorted(tr.graph.nodes)} expected {sorted(n + off for n in node_ids)}", case, check, prefix))
    else:
        for (t, lab), nid in assign:
            if int(tr.get_time(nid + off)) != t:
                out.append(vio("C13", "node-time", f"node {nid + off} time {tr.get_time(nid + off)} expected {t}", case, check, prefix))
                break
    return out


def _c13_class(assign, seg):
    ident = all(lab == nid for (t, lab), nid in assign)
    present = {(t, int(lab)) for t in range(seg.shape[0]) for lab in np.unique(seg[t]) if lab}
    unlisted = present - {k for k, _ in assign}
    return ("identity" if ident else "relabel") + ("+unlisted-labels" if unlisted else "")


def c13_cases(tier):
    q = tier == "quick"
    # a small 3D+t variant (t, z, y, x), direct relabelling only
    shape3 = (2, 2, 1, 2)
    for flat in itertools.product((0, 1, 2), repeat=8):
        seg = np.array(flat).reshape(shape3)
        present = [(t, int(lab)) for t in range(2) for lab in np.unique(seg[t]) if lab]
        if not present or (q and len(present) > 3):
            continue
        for perm in itertools.permutations((0, 1, 2, 3), len(present)):
            yield ("direct", shape3, flat, tuple(zip(present, perm)))
    # uint8 label array, node ids above 255
    for flat in itertools.product((0, 1, 2), repeat=6):
        seg = np.array(flat).reshape((2, 1, 3))
        present = [(t, int(lab)) for t in range(2) for lab in np.unique(seg[t]) if lab]
        if not present:
            continue
        for perm in itertools.permutations((1, 256, 257, 300), len(present)):
            if len(present) <= 3:
                yield ("direct", (2, 1, 3), flat, tuple(zip(present, perm)), "u8")
    # labels and ids of six digits that differ by one (equal under a relative tolerance of 1e-5)
    for flat in itertools.product((0, 100001, 100002), repeat=4):
        seg = np.array(flat).reshape((2, 1, 2))
        present = [(t, int(lab)) for t in range(2) for lab in np.unique(seg[t]) if lab]
        for r in range(1, len(present) + 1):
            for sub in itertools.combinations(present, r):
                for perm in itertools.permutations((100000, 100001, 100002), r):
                    yield ("direct", (2, 1, 2), flat, tuple(zip(sub, perm)))
                    yield ("df", (2, 1, 2), flat, tuple(zip(sub, perm)))
    # one builder object, two data sets: every ordered pair of a family of small data sets
    shape = (2, 1, 3)
    sets = []
    for flat in itertools.product((0, 1, 2), repeat=6):
        if flat[1] or flat[4] or not (flat[0] and flat[3]) or (q and flat[2]):
            continue  # two separate one-pixel objects per frame at most, one always present
        seg = np.array(flat).reshape(shape)
        present = [(t, int(lab)) for t in range(2) for lab in np.unique(seg[t]) if lab]
        for perm in itertools.permutations((1, 2, 3, 4), len(present)):
            if q and (perm != tuple(sorted(perm)) and perm != tuple(sorted(perm, reverse=True))):
                continue
            sets.append((flat, tuple(zip(present, perm))))
    for fa, aa in sets:
        for fb, ab in sets:
            yield ("builder2", shape, fa, aa, fb, ab)
    shape = (2, 1, 3)
    labels = (0, 1, 2, 3) if not q else (0, 1, 2)
    ids = (0, 1, 2, 3, 4) if not q else (0, 1, 2, 3)
    for flat in itertools.product(labels, repeat=int(np.prod(shape))):
        seg = np.array(flat).reshape(shape)
        present = [(t, int(lab)) for t in range(shape[0]) for lab in np.unique(seg[t]) if lab]
        if not present:
            continue
        # all subsets of present (time,label) pairs x all injective id assignments
        for r in range(1, len(present) + 1):
            for sub in itertools.combinations(present, r):
                for perm in itertools.permutations(ids, r):
                    assign = tuple(zip(sub, perm))
                    yield ("direct", shape, flat, assign)
                    if (not q) or (r <= 2 and max(perm) <= 2):
                        yield ("df", shape, flat, assign)


# ===========================================================================
# C04 / C05 constructor clause: every way of obtaining a SolutionTracks from a forest

def two_objects_case(case):
    """two projects alive in one process: object B1 (seed + history), then object A (another seed +
    history), then B2 built exactly like B1.  The state invariants must hold on all three at the
    end: whatever one object does must not reach another one."""
    from . import events, oracles
    _k, wname, seed_a, hist_a, seed_b, hist_b = case
    w = worlds.world(wname)

    def run(seed_j, hist):
        tr = worlds.build(w, worlds.seed_from_json(seed_j))
        events.attach_refresh_counter(tr)
        for ev in hist:
            events.apply_event(tr, w, tuple(tuple(x) if isinstance(x, list) else x for x in ev))
        return tr

    out = []
    try:
        objs = [("first", run(seed_b, hist_b)), ("other", run(seed_a, hist_a)), ("second", run(seed_b, hist_b))]
    except Exception as e:  # noqa: BLE001
        return [vio(p, "construct-raises", f"two objects in one process: {type(e).__name__}: {e}", case, "two-objects", "") for p in ("C04", "C05", "C06")]
    for name, tr in objs:
        for p, f in (("C03", oracles.inv_c03), ("C04", oracles.inv_c04), ("C05", oracles.inv_c05), ("C06", oracles.inv_c06)):
            try:
                bad = f(tr)[:1]
            except Exception as e:  # noqa: BLE001
                bad = [("oracle-raises", f"{type(e).__name__}: {e}")]
            for clause, detail in bad:
                out.append(vio(p, clause, f"{name} of three objects in one process (B, A, B again): {detail}", case, "two-objects", name))
    return out


def two_objects_cases(tier):
    from . import events, explore
    q = tier == "quick"
    for wname in ("noseg-2d", "noseg-2d-given"):
        w = worlds.world(wname)
        sessions = []
        for sname, depth in (("empty", 3 if q else 4), ("chain", 1), ("div", 1)):
            if wname == "noseg-2d-given" and sname == "empty":
                continue
            seed = worlds.SEEDS[sname]
            frontier = [[]]
            seen = set()
            for _d in range(depth + 1):
                nxt = []
                for hist in frontier:
                    try:
                        tr = explore.rebuild(w, seed, hist)
                    except explore.ReplayDiverged:
                        # objects built earlier in this process change what this one does: keep the
                        # history as a session (the cases do not depend on acceptance), do not extend it
                        sessions.append((worlds.seed_to_json(seed), [events.ev_to_json(e) for e in hist]))
                        continue
                    key = canon.state_key(tr)
                    if key in seen:
                        continue
                    seen.add(key)
                    sessions.append((worlds.seed_to_json(seed), [events.ev_to_json(e) for e in hist]))
                    if len(hist) == depth:
                        continue
                    for ev in events.enabled_events(tr, w, kinds=("add_node", "add_edge", "del_edge")):
                        if ev[0] == "add_node" and (ev[5] != "ok" or ev[4]):
                            continue
                        if ev[0] == "add_edge" and ev[3]:
                            continue
                        try:
                            t2 = explore.rebuild(w, seed, hist)
                        except explore.ReplayDiverged:
                            continue
                        if events.apply_event(t2, w, ev).status == "ok":
                            nxt.append(hist + [ev])
                frontier = nxt
        cap = 45 if q else 120
        sessions = sessions[:cap]
        for sa, ha in sessions:
            for sb, hb in sessions:
                yield ("two", wname, sa, ha, sb, hb)


def ctor_case(case):
    from funtracks.data_model import SolutionTracks, Tracks
    from . import oracles
    if case[0] == "two":
        return two_objects_case(case)
    kind, seed_j, mode = case
    seed = worlds.seed_from_json(seed_j)
    g = nx.DiGraph()
    for n, (t, _r) in seed["nodes"].items():
        g.add_node(n, time=t, pos=[float(n), float(t)])
    g.add_edges_from(seed["edges"])
    segs = sorted(worlds.segments(g), key=min)
    comps = sorted(worlds.components(g), key=min)
    given_t = {n: 3 * i + 2 for i, sgm in enumerate(segs) for n in sgm}
    given_l = {n: 2 * j for j, c in enumerate(comps) for n in c}  # lineage ids include 0
    if mode in ("given", "from_tracks-given", "partial"):
        for n in g.nodes:
            g.nodes[n]["track_id"] = given_t[n]
            g.nodes[n]["lineage_id"] = given_l[n]
    if mode == "partial" and len(g.nodes) >= 2:
        last = sorted(g.nodes)[-1]
        del g.nodes[last]["track_id"]
        del g.nodes[last]["lineage_id"]
    try:
        if mode in ("compute", "given"):
            tr = SolutionTracks(g, ndim=3)
        else:
            base = Tracks(g, ndim=3, tracklet_attr="track_id", lineage_attr="lineage_id") if False else Tracks(g, ndim=3)
            tr = SolutionTracks.from_tracks(base)
    except Exception as e:  # noqa: BLE001
        return [vio(p, "construct-raises", f"{mode}: {type(e).__name__}: {e}", case, "constructor", mode) for p in ("C04", "C05")]
    out = []
    for p, f in (("C04", oracles.inv_c04), ("C05", oracles.inv_c05), ("C06", oracles.inv_c06)):
        try:
            bad = f(tr)[:2]
        except Exception as e:  # noqa: BLE001  (a query of the object itself raises)
            bad = [("oracle-raises", f"{type(e).__name__}: {e}")]
        for clause, detail in bad:
            out.append(vio(p, clause, f"{mode}: {detail}", case, "constructor", mode))
    if mode in ("given", "from_tracks-given"):
        ch = {n: (given_t[n], tr.get_track_id(n)) for n in g.nodes if tr.get_track_id(n) != given_t[n]}
        if ch:
            out.append(vio("C04", "constructor-changed-given-ids", f"{mode}: track ids given -> stored {ch}", case, "constructor", mode))
        ch = {n: (given_l[n], tr.get_lineage_id(n)) for n in g.nodes if tr.get_lineage_id(n) != given_l[n]}
        if ch:
            out.append(vio("C05", "constructor-changed-given-ids", f"{mode}: lineage ids given -> stored {ch}", case, "constructor", mode))
    return out


def ctor_cases(tier):
    q = tier == "quick"
    for seed in worlds.forests(4 if q else 5, 3 if q else 4, 0):
        sj = worlds.seed_to_json(seed)
        for mode in ("compute", "given", "from_tracks", "from_tracks-given", "partial"):
            yield ("ctor", sj, mode)
    yield from two_objects_cases(tier)


# ===========================================================================
# driver

# ===========================================================================
# C07 on masks of 10**5 pixels: strokes that leave 0 / 1 / 2 / 5 pixels of a node

def c07_big_case(case):
    """case = (h, w, leave, value, scale): node 1 fills an h x (w - 3) block of frame 0, node 2 a
    column next to it, node 3 sits in frame 1; a stroke of `value` covers node 1 except `leave` pixels"""
    import networkx as nx
    from funtracks.data_model import SolutionTracks
    from . import canon, oracles, worlds as W
    h, w, leave, value, scale = case
    seg = np.zeros((2, h, w), dtype="int32")
    seg[0, :, : w - 3] = 1
    seg[0, :, w - 2] = 2
    seg[1, 0:2, 0:2] = 3
    g = nx.DiGraph()
    g.add_node(1, time=0)
    g.add_node(2, time=0)
    g.add_node(3, time=1)
    g.add_edge(1, 3)
    tracks = SolutionTracks(g, segmentation=seg, ndim=3, scale=list(scale) if scale else None)
    cls = f"{'big' if h * w > 1000 else 'toy'}:leave{leave}:value{value}"
    ys, xs = np.nonzero(seg[0] == 1)
    ys, xs = ys[leave:], xs[leave:]
    ev = ("paint", 0, [ys.tolist(), xs.tolist()], value, int(tracks.get_next_track_id()), False, "rest1")
    before = canon.observe(tracks)  # graph, registered features, array (id counters may move on)
    out = events.apply_event(tracks, W.world("seg-2d-core"), ev)
    res = []
    if out.status != "ok":
        return [vio("C07", "stroke-refused", f"{out.status} {out.exc!r}", case, "c07big", cls)]
    exp_nodes = {2, 3} | ({1} if leave else set()) | ({value} if value not in (0,) else set())
    if set(int(n) for n in tracks.graph.nodes) != exp_nodes:
        res.append(vio("C07", "nodes-after-stroke", f"nodes {sorted(tracks.graph.nodes)} != {sorted(exp_nodes)}", case, "c07big", cls))
    for clause, detail in oracles.inv_c07(tracks)[:2]:
        res.append(vio("C07", clause, detail, case, "c07big", cls))
    for n in tracks.graph.nodes:
        a = tracks.get_node_attr(n, "area")
        px = int((tracks.segmentation == n).sum()) * (float(np.prod(scale[1:])) if scale else 1.0)
        if a is None or abs(float(a) - px) > 1e-9 * max(1.0, px):
            res.append(vio("C07", "area-after-stroke", f"node {n}: area {a} for {px} (scaled) pixels", case, "c07big", cls))
            break
    if tracks.undo() is not True or canon.observe(tracks) != before:
        res.append(vio("C07", "undo-does-not-restore", "; ".join(canon.diff(before, canon.observe(tracks))), case, "c07big", cls))
    return res


def c07_big_cases(tier):
    for h, w in ((4, 6), (320, 330)):
        for leave in (0, 1, 2, 5):
            for value in (0, 2, 9):
                for scale in (None, (1.0, 0.5, 0.5)):
                    yield (h, w, leave, value, scale)


# ===========================================================================
# C08 / C10 on masks of 2 500 and 10**5 pixels: one-pixel edits (relative change < 1e-5)

def c08_big_case(case):
    """case = (prop, h, w, edit, toggle, scale): the big node of c07_big_case gets a one-pixel
    edit (erase a corner pixel / erase the pixel next to the centroid / grow by one pixel);
    toggle: a feature key that is switched off before the edit and on again after it"""
    import networkx as nx
    from funtracks.data_model import SolutionTracks
    from . import oracles, worlds as W
    prop, h, w, edit, toggle, scale = case
    seg = np.zeros((2, h, w), dtype="int32")
    seg[0, :, : w - 3] = 1
    seg[0, :, w - 1] = 2
    seg[1, 0:2, 0:2] = 3
    g = nx.DiGraph()
    g.add_node(1, time=0)
    g.add_node(2, time=0)
    g.add_node(3, time=1)
    g.add_edge(1, 3)
    tracks = SolutionTracks(g, segmentation=seg, ndim=3, scale=list(scale) if scale else None)
    cls = f"{'big' if h * w > 50000 else ('mid' if h * w > 1000 else 'toy')}:{edit}:{toggle or 'plain'}"
    if edit == "erase-corner":
        pix, value = [[0], [0]], 0
    elif edit == "erase-centre":
        pix, value = [[h // 2], [(w - 3) // 2]], 0
    else:
        pix, value = [[h // 2], [w - 3]], 1
    res = []
    if toggle:
        tracks.disable_features([toggle])
    ev = ("paint", 0, pix, value, int(tracks.get_track_id(1)), False, edit)
    out = events.apply_event(tracks, W.world("seg-2d-core"), ev)
    if out.status != "ok":
        return [vio(prop, "stroke-refused", f"{out.status} {out.exc!r}", case, "c08big", cls)]
    if toggle:
        tracks.enable_features([toggle])
    for phase in ("apply", "undo", "redo"):
        if phase == "undo" and tracks.undo() is not True:
            res.append(vio(prop, "undo-false", "undo() returned False after one edit", case, "c08big", cls))
            break
        if phase == "redo" and tracks.redo() is not True:
            res.append(vio(prop, "redo-false", "redo() returned False after one undo", case, "c08big", cls))
            break
        bad = oracles.inv_c08(tracks, differential=False)
        for clause, detail in bad[:2]:
            res.append(vio(prop, clause, f"after {phase}: {detail}", case, "c08big", cls + ":" + phase))
        if bad:
            break
    return res


def c08_big_cases(tier, prop="C08"):
    for h, w in ((4, 6), (50, 53), (320, 330)):
        for edit in ("erase-corner", "erase-centre", "grow"):
            for toggle in ((None,) if prop == "C08" else ("area", "pos")):
                for scale in (None, (1.0, 0.5, 0.5)):
                    yield (prop, h, w, edit, toggle, scale)


# ===========================================================================
# C02 / C20 on histories of 3 and 300 entries

def long_history_case(case):
    """case = (n, scenario): n accepted edits on a 3-node chain, then a fixed script of undo /
    redo / edit calls, every call judged against the timeline model (return value, state,
    number of refresh emissions)"""
    from . import canon, histories, worlds as W
    n, scenario = case
    w = W.world("noseg-2d")
    tracks = W.build(w, "chain")
    tl = histories.Timeline(canon.observe(tracks))
    cls = f"{'long' if n > 100 else 'toy'}:{scenario}"
    res = []

    def edit(i):
        out = events.apply_event(tracks, w, ("set_attr", 1 + (i % 3), "score", float(i) + 0.5))
        if out.status != "ok":
            res.append(vio("C02", "edit-refused", f"edit {i}: {out.status} {out.exc!r}", case, "longhist", cls))
            return False
        tl.edit(canon.observe(tracks))
        if len(out.refresh) != 1:
            res.append(vio("C20", "refresh-count", f"edit {i}: {len(out.refresh)} emission(s)", case, "longhist", cls))
        return True

    def step(kind, k):
        before = canon.observe(tracks)
        out = events.apply_event(tracks, w, (kind,))
        exp = tl.can_undo() if kind == "undo" else tl.can_redo()
        if out.status != "ok":
            res.append(vio("C02", "undo-redo-raises", f"call {k} ({kind}): {out.exc!r}", case, "longhist", cls))
            return False
        if exp:
            tl.cursor += -1 if kind == "undo" else 1
        if out.action is not exp:
            res.append(vio("C02", "wrong-return", f"call {k}: {kind}() returned {out.action!r}, timeline (len {len(tl.states)}, cursor {tl.cursor}) says {exp}", case, "longhist", cls))
        if len(out.refresh) != (1 if exp else 0):
            res.append(vio("C20", "refresh-on-noop" if not exp else "refresh-count-" + kind,
                           f"call {k}: {len(out.refresh)} emission(s) from {kind}() with {'something' if exp else 'nothing'} to step to", case, "longhist", cls))
        obs = canon.observe(tracks)
        if obs != tl.current:
            res.append(vio("C02", "state-differs-from-timeline", f"call {k} ({kind}): " + "; ".join(canon.diff(tl.current, obs)), case, "longhist", cls))
        if not exp and obs != before:
            res.append(vio("C02", "false-step-changed-state", f"call {k} ({kind})", case, "longhist", cls))
        return not res

    for i in range(n):
        if not edit(i):
            return res
    if scenario == "unwind":
        script = ["undo"] * (n + 2)
    elif scenario == "redo-at-top":
        script = ["redo", "redo", "undo", "redo", "redo"]
    elif scenario == "unwind-rewind":
        script = ["undo"] * n + ["redo"] * (n + 2)
    else:  # unwind, new edit, unwind everything that was ever visited
        script = ["undo"] * n + ["edit"] + ["undo"] * (2 * n + 3)
    for k, kind in enumerate(script):
        ok = edit(n + k) if kind == "edit" else step(kind, k)
        if not ok:
            break
    return res


def long_history_cases(tier):
    for n in (3, 300):
        for scenario in ("unwind", "redo-at-top", "unwind-rewind", "unwind-edit-unwind"):
            yield (n, scenario)


CASE_FNS = {
    "longhist": long_history_case,
    "c08big": c08_big_case,
    "c07big": c07_big_case,
    "c17": c17_case, "c19u": c19_unique_case, "c19r": c19_relabel_case,
    "c18p": c18_points_case, "c18s": c18_seg_case, "c13": c13_case, "ctor": ctor_case,
}


def get_fn(name):
    if name not in CASE_FNS:
        from . import io_checks
        CASE_FNS.update({"c15": io_checks.c15_case, "c12": io_checks.c12_case, "c12g": io_checks.c12_geff_case})
    return CASE_FNS[name]


def _run_chunk(task):
    name, cases = task
    fn = get_fn(name)
    out = []
    n_nontrivial = 0
    for c in cases:
        try:
            v = events.with_watchdog(lambda c=c: fn(c), 20)
        except events.Hang:
            try:  # believed only when it happens twice, the second time with a 5x limit
                v = events.with_watchdog(lambda c=c: fn(c), 100)
            except events.Hang:
                v = [vio("C00", "hang", "case did not terminate", c, name)]
        out.extend(v)
    return len(cases), out


def run_cases(name, cases_iter, chunk=200, deadline=None, log=print):
    t0 = time.time()
    n = 0
    violations = []
    samples = []
    batch = []
    tasks = []
    capped = None
    for c in cases_iter:
        if len(samples) < 3:
            samples.append(c)
        batch.append(c)
        if len(batch) >= chunk:
            tasks.append((name, batch))
            batch = []
        if len(tasks) >= 2000:
            for k, v in explore.pmap(_run_chunk, tasks, chunk=1):
                n += k
                violations.extend(v)
            tasks = []
            log(f"  {name}: {n} cases, {len(violations)} raw violations, {time.time() - t0:.1f}s")
            if deadline and time.time() > deadline:
                capped = f"time budget reached after {n} cases"
                break
    if batch and not capped:
        tasks.append((name, batch))
    if tasks and not capped:
        for k, v in explore.pmap(_run_chunk, tasks, chunk=1):
            n += k
            violations.extend(v)
    log(f"  {name}: {n} cases, {len(violations)} raw violations, {time.time() - t0:.1f}s")
    return {"cases": n, "violations": violations, "samples": samples, "capped": capped, "wall_s": time.time() - t0}


def replay(rec):
    if rec["check_fn"] in ("roundtrip_state", "readonly_state"):
        from . import io_checks
        c = rec["case"]
        if rec["check_fn"] == "roundtrip_state":
            _n, v = io_checks.roundtrip_state((c["world"], c["seed"], c["history"], [c["format"]]))
        else:
            _n, v = io_checks.readonly_state((c["world"], c["seed"], c["history"]))
        return sorted({x["signature"] for x in v})
    fn = get_fn(rec["check_fn"])
    case = _tuplify(rec["case"])
    return sorted({v["signature"] for v in fn(case)})


def _tuplify(o):
    if isinstance(o, list):
        return tuple(_tuplify(x) for x in o)
    return o


def tmpdir():
    return tempfile.mkdtemp(prefix="mcverif_", dir=os.environ.get("VERIF_TMP", None))


def rmtree(d):
    shutil.rmtree(d, ignore_errors=True)
