"""Reference oracles for C03..C09 (state invariants) and the transition-local
clauses.  Each returns a list of (clause, detail) pairs; empty list = holds."""
from __future__ import annotations

import math
from fractions import Fraction

import networkx as nx
import numpy as np

from . import bind  # noqa: F401
from . import worlds
from .canon import norm
from funtracks.data_model import SolutionTracks  # noqa: E402

REGIONPROPS_KEYS = ("pos", "area", "ellipse_axis_radii", "circularity", "perimeter")


# ---------------------------------------------------------------------------
# C03

def inv_c03(tracks):
    g = tracks.graph
    bad = []
    for n in g.nodes:
        if g.in_degree(n) > 1:
            bad.append(("merge", f"node {n} has parents {sorted(g.predecessors(n))}"))
        if g.out_degree(n) > 2:
            bad.append(("third-child", f"node {n} has children {sorted(g.successors(n))}"))
    for u, v in g.edges:
        if u == v:
            bad.append(("self-loop", f"edge {(u, v)}"))
            continue
        tu, tv = tracks.get_time(u), tracks.get_time(v)
        if not tu < tv:
            bad.append(("non-forward-edge", f"edge {(u, v)} goes from time {tu} to time {tv}"))
    return bad


def edges_of(tracks):
    return {(int(u), int(v)) for u, v in tracks.graph.edges}


def c03_transition(pre, ev, out, tracks):
    """Refusal/force oracle. `pre` = dict(edges, times, indeg, outdeg)."""
    bad = []
    kind = ev[0]
    from funtracks.exceptions import InvalidActionError

    if kind == "add_edge":
        u, v, force = ev[1], ev[2], ev[3]
        if u not in pre["times"] or v not in pre["times"]:
            return bad
        nonforward = pre["times"][u] >= pre["times"][v]
        merge = pre["indeg"][v] > 0
        in_edges_v = {e for e in pre["edges"] if e[1] == v}
        third = pre["outdeg"][u] >= 2 and not (force and (u, v) in pre["edges"])
        conflict = nonforward or merge or third
        if out.status == "ok":
            post = edges_of(tracks)
            removed = pre["edges"] - post
            added = post - pre["edges"]
            if not force and removed:
                bad.append(("unforced-removal", f"edges {sorted(removed)} removed without force"))
            if not removed <= in_edges_v:
                bad.append(("removed-nonconflicting", f"removed {sorted(removed - in_edges_v)} which do not conflict with {(u, v)}"))
            if not (added <= {(u, v)}) or (u, v) not in post:
                bad.append(("wrong-edges", f"added {sorted(added)}; requested {(u, v)}"))
            if conflict and not force:
                what = "non-forward edge" if nonforward else ("merge" if merge else "third child")
                bad.append(("accepted-" + what.replace(" ", "-"), f"{(u, v)} accepted without force"))
            elif nonforward:
                bad.append(("accepted-non-forward-edge", f"{(u, v)} accepted (times {pre['times'][u]}->{pre['times'][v]})"))
        elif out.status == "raised" and conflict:
            if not isinstance(out.exc, InvalidActionError):
                bad.append(("wrong-exception", f"{type(out.exc).__name__}: {out.exc}"))
    elif kind == "add_node" and out.status == "ok":
        nid, force = ev[1], ev[4]
        post = edges_of(tracks)
        removed = pre["edges"] - post
        added = post - pre["edges"]
        if not all(nid in e for e in added):
            bad.append(("wrong-edges", f"added {sorted(added)} not incident to new node {nid}"))
        nbrs = {a for e in added for a in e if a != nid}
        ok_removed = {(a, b) for (a, b) in pre["edges"] if a in nbrs and b in nbrs}
        if force:
            ok_removed |= {(a, b) for (a, b) in pre["edges"] if a in nbrs or b in nbrs}
        if not removed <= ok_removed:
            bad.append(("removed-nonconflicting", f"removed {sorted(removed - ok_removed)} (force={force})"))
    elif kind == "del_node" and out.status == "ok":
        n = ev[1]
        post = edges_of(tracks)
        added = post - pre["edges"]
        preds = {a for (a, b) in pre["edges"] if b == n}
        succs = {b for (a, b) in pre["edges"] if a == n}
        if not added <= {(p, s) for p in preds for s in succs}:
            bad.append(("wrong-edges", f"added {sorted(added)} when deleting node {n}"))
    elif kind in ("paint",) and out.status == "ok":
        pass
    if out.status == "hang":
        bad.append(("hang", f"event {ev[:4]} did not terminate (cycle?)"))
    return bad


def pre_info(tracks):
    g = tracks.graph
    return {
        "edges": edges_of(tracks),
        "times": {int(n): int(tracks.get_time(n)) for n in g.nodes},
        "indeg": {int(n): g.in_degree(n) for n in g.nodes},
        "outdeg": {int(n): g.out_degree(n) for n in g.nodes},
        "tid": {int(n): tracks.get_node_attr(n, tracks.features.tracklet_key) for n in g.nodes},
        "lid": {int(n): tracks.get_node_attr(n, tracks.features.lineage_key) for n in g.nodes},
        "comp": {int(n): c for c in worlds.components(g) for n in c},
    }


# ---------------------------------------------------------------------------
# C04 / C05

def _partition(ids: dict):
    by = {}
    for n, i in ids.items():
        by.setdefault(i, set()).add(n)
    return by


def _partition_check(ids: dict, ref_classes, what):
    bad = []
    missing = [n for n, i in ids.items() if i is None]
    if missing:
        bad.append((f"{what}-missing", f"nodes {sorted(missing)} have no {what} id"))
    by = _partition({n: i for n, i in ids.items() if i is not None})
    ref = {frozenset(c) for c in ref_classes}
    for i, ns in sorted(by.items(), key=lambda kv: repr(kv[0])):
        if frozenset(ns) not in ref:
            # which direction?
            cls = [c for c in ref if c & ns]
            if len(cls) > 1:
                bad.append((f"{what}-shared", f"{what} id {i} on nodes {sorted(ns)} spans {len(cls)} separate classes {[sorted(c) for c in cls]}"))
            else:
                bad.append((f"{what}-split", f"class {sorted(cls[0])} carries several {what} ids: { {n: ids[n] for n in sorted(cls[0])} }"))
    return bad


def inv_c04(tracks):
    g = tracks.graph
    ids = {int(n): tracks.get_node_attr(n, tracks.features.tracklet_key) for n in g.nodes}
    return _partition_check(ids, worlds.segments(g), "track")


def inv_c05(tracks):
    g = tracks.graph
    if tracks.features.lineage_key is None:
        return []
    ids = {int(n): tracks.get_node_attr(n, tracks.features.lineage_key) for n in g.nodes}
    return _partition_check(ids, worlds.components(g), "lineage")


def named_nodes(pre, ev, tracks):
    """nodes the event names + nodes of the track it names (pre and post)"""
    kind = ev[0]
    named = set()
    tids = set()
    if kind in ("add_edge", "del_edge"):
        named |= {ev[1], ev[2]}
    elif kind in ("del_node", "set_attr"):
        named.add(ev[1])
    elif kind == "swap":
        named |= set(ev[1:])
    elif kind == "add_node":
        named.add(ev[1])
        tids.add(ev[3])
    elif kind == "paint":
        t, pix, value, tid = ev[1], ev[2], ev[3], ev[4]
        named.add(value)
        tids.add(tid)
        # labels overwritten by the stroke are named through the pixels
        named |= set(pre.get("paint_old", ()))
    g = tracks.graph
    if ev[0] in ("add_node", "paint"):
        # the id actually assigned to the created node
        nid = ev[1] if kind == "add_node" else ev[3]
        if nid in g.nodes:
            tids.add(tracks.get_node_attr(nid, tracks.features.tracklet_key))
    for n, i in pre["tid"].items():
        if i in tids:
            named.add(n)
    for n in g.nodes:
        if tracks.get_node_attr(n, tracks.features.tracklet_key) in tids:
            named.add(int(n))
    return named


def frame_clause(pre, ev, tracks, which):
    """ids of nodes in untouched components must not change"""
    g = tracks.graph
    named = named_nodes(pre, ev, tracks)
    post_comp = {int(n): c for c in worlds.components(g) for n in c}
    key = tracks.features.tracklet_key if which == "track" else tracks.features.lineage_key
    old = pre["tid"] if which == "track" else pre["lid"]
    bad = []
    if key is None:
        return bad
    for n in g.nodes:
        n = int(n)
        if n not in old:
            continue
        if pre["comp"][n] & named or post_comp[n] & named:
            continue
        new = tracks.get_node_attr(n, key)
        if new != old[n]:
            bad.append((f"frame-{which}", f"node {n} in untouched component {sorted(post_comp[n])}: {which} id {old[n]} -> {new} (event names {sorted(named)})"))
    return bad


# ---------------------------------------------------------------------------
# C06

def inv_c06(tracks, queries=True):
    g = tracks.graph
    bad = []
    ta = tracks.track_annotator
    for what, key, lookup in (
        ("track", tracks.features.tracklet_key, tracks.track_id_to_node),
        ("lineage", tracks.features.lineage_key, ta.lineage_id_to_nodes),
    ):
        if key is None:
            continue
        scan = {}
        for n in g.nodes:
            i = tracks.get_node_attr(n, key)
            if i is not None:
                scan.setdefault(i, set()).add(int(n))
        for i in sorted(set(scan) | set(lookup), key=repr):
            lst = list(lookup.get(i, [])) if i in lookup else None
            if lst is None:
                bad.append((f"{what}-lookup-missing", f"{what} id {i} is on nodes {sorted(scan[i])} but not in the lookup"))
                continue
            # an id that is kept with an empty list still "lists exactly the nodes that carry
            # it" (none); the library's own readers skip empty entries, so it is not an alarm
            if len(set(lst)) != len(lst):
                bad.append((f"{what}-lookup-duplicate", f"{what} id {i}: {lst}"))
            if set(int(x) for x in lst) != scan.get(i, set()):
                bad.append((f"{what}-lookup-stale", f"{what} id {i}: lookup {sorted(lst)} vs graph {sorted(scan.get(i, set()))}"))
        nxt = tracks.get_next_track_id() if what == "track" else tracks.get_next_lineage_id()
        if nxt in scan:
            bad.append((f"{what}-next-id-in-use", f"next {what} id {nxt} is carried by {sorted(scan[nxt])}"))
    # fresh node ids
    saved = tracks.node_id_counter
    try:
        for k in (1, 2, 3):
            ids = tracks._get_new_node_ids(k)
            if len(set(ids)) != k or any(i in g.nodes for i in ids):
                bad.append(("node-id-in-use", f"_get_new_node_ids({k}) -> {ids}, nodes {sorted(g.nodes)}"))
    finally:
        tracks.node_id_counter = saved
    if queries and tracks.features.tracklet_key is not None:
        tkey = tracks.features.tracklet_key
        by_tid = {}
        for n in g.nodes:
            by_tid.setdefault(tracks.get_node_attr(n, tkey), []).append(int(n))
        tids = [i for i in by_tid if i is not None]
        probe = sorted(tids) + [tracks.get_next_track_id(), 0]
        for tid in probe:
            ns = by_tid.get(tid, [])
            ts = sorted((int(tracks.get_time(n)), n) for n in ns)
            if len({t for t, _ in ts}) != len(ts):
                continue  # two nodes of a track in one frame: scan answer not unique
            for t in range(-1, worlds.T + 1):
                before = [n for tt, n in ts if tt < t]
                after = [n for tt, n in ts if tt > t]
                exp = (before[-1] if before else None, after[0] if after else None)
                got = tracks.get_track_neighbors(tid, t)
                got = tuple(None if x is None else int(x) for x in got)
                if got != exp:
                    bad.append(("neighbors-query", f"get_track_neighbors({tid},{t}) = {got}, scan says {exp}"))
                exp_has = any(tt == t for tt, _ in ts)
                got_has = bool(tracks.has_track_id_at_time(tid, t))
                if got_has != exp_has:
                    bad.append(("has-track-query", f"has_track_id_at_time({tid},{t}) = {got_has}, scan says {exp_has}"))
    return bad


# ---------------------------------------------------------------------------
# C07

def inv_c07(tracks):
    seg = tracks.segmentation
    if seg is None:
        return []
    g = tracks.graph
    bad = []
    labels = set(int(x) for x in np.unique(seg)) - {0}
    nodes = set(int(n) for n in g.nodes)
    for lab in sorted(labels - nodes):
        where = sorted(set(int(t) for t in np.nonzero(seg == lab)[0]))
        bad.append(("orphan-label", f"label {lab} in frames {where} has no node"))
    for n in sorted(nodes):
        t = int(tracks.get_time(n))
        frames = sorted(set(int(x) for x in np.nonzero(seg == n)[0]))
        if not frames:
            bad.append(("node-without-pixels", f"node {n} (time {t}) labels no pixel"))
            continue
        if frames != [t]:
            bad.append(("label-in-wrong-frame", f"node {n} has time {t} but labels frames {frames}"))
        got = tracks.get_pixels(n)
        exp = np.nonzero(seg[t] == n)
        ok = got is not None and len(got) == seg.ndim and np.array_equal(np.asarray(got[0]), np.full(len(exp[0]), t))
        if ok:
            a = sorted(zip(*[np.asarray(x).tolist() for x in got[1:]]))
            b = sorted(zip(*[x.tolist() for x in exp]))
            ok = a == b
        if not ok:
            bad.append(("get-pixels", f"get_pixels({n}) does not return the node's pixels"))
    return bad


# ---------------------------------------------------------------------------
# C08

def active_regionprops(tracks):
    from funtracks.annotators import RegionpropsAnnotator
    for a in tracks.annotators:
        if isinstance(a, RegionpropsAnnotator):
            keys = [k for k in a.features]
            # a key of this annotator that the registry lists counts as enabled too
            keys += [k for k in a.all_features if k in tracks.features and k not in keys]
            return a, keys
    return None, []


def scratch_twin(tracks, extra=()):
    """from-scratch SolutionTracks on copies of the bare graph and the array"""
    g = nx.DiGraph()
    tk = tracks.features.time_key
    for n in tracks.graph.nodes:
        g.add_node(n, **{tk: tracks.graph.nodes[n][tk]})
    g.add_edges_from(tracks.graph.edges)
    twin = SolutionTracks(
        g, segmentation=tracks.segmentation.copy(), time_attr=tk,
        scale=None if tracks.scale is None else list(tracks.scale), ndim=tracks.ndim,
    )
    if extra:
        twin.enable_features(list(extra))
    return twin


def _same_values(a, b, rel=1e-9):
    """equal up to the last few bits (two correct computations of the same quantity may sum
    in a different order); any real maintenance bug is off by many orders of magnitude more"""
    if isinstance(a, tuple) and isinstance(b, tuple):
        return len(a) == len(b) and all(_same_values(x, y, rel) for x, y in zip(a, b))
    if isinstance(a, float) and isinstance(b, float):
        return a == b or math.isclose(a, b, rel_tol=rel, abs_tol=1e-12)
    return a == b


def _close(a, b, rel=1e-12):
    if a is None or b is None:
        return a is b
    return math.isclose(float(a), float(b), rel_tol=rel, abs_tol=1e-12)


def inv_c08(tracks, differential=True, skip=()):
    seg = tracks.segmentation
    if seg is None:
        return []
    ann, keys = active_regionprops(tracks)
    keys = [k for k in keys if k not in skip]
    # the position feature of tracks with a segmentation is segmentation-derived whatever the
    # annotator calls it: judge it under the key the registry names (not under the key the
    # annotator believes it manages), as long as that key is a registered feature
    reg_pos = tracks.features.position_key
    if isinstance(reg_pos, str) and reg_pos in tracks.features and reg_pos not in skip and reg_pos not in keys:
        keys = keys + [reg_pos]
    if not keys:
        return []
    bad = []
    g = tracks.graph
    sc = [1.0] * (seg.ndim - 1) if tracks.scale is None else [float(s) for s in tracks.scale[1:]]
    pos_key, area_key = (reg_pos if isinstance(reg_pos, str) else ann.pos_key), ann.area_key
    for n in sorted(g.nodes):
        t = int(tracks.get_time(n))
        idx = np.nonzero(seg[t] == n)
        cnt = len(idx[0])
        if cnt == 0:
            continue  # C07's business
        if area_key in keys:
            got = tracks.get_node_attr(n, area_key)
            exp = cnt * float(np.prod(sc))
            if got is None or not _close(got, exp):
                bad.append(("area", f"node {n}: stored area {got}, mask has {cnt} px * voxel {np.prod(sc)} = {exp}"))
        if pos_key in keys:
            got = tracks.get_node_attr(n, pos_key)
            exp = [float(np.mean(a)) * s for a, s in zip(idx, sc)]
            if got is None or len(got) != len(exp) or not all(_close(a, b) for a, b in zip(got, exp)):
                bad.append(("position", f"node {n}: stored position {norm(got)}, scaled centroid {exp}"))
    if differential and not bad:
        extra = [k for k in keys if k not in (pos_key, area_key)]
        try:
            twin = scratch_twin(tracks, extra)
        except Exception as e:  # noqa: BLE001
            return [("scratch-raises", f"from-scratch computation raised {type(e).__name__}: {e}")]
        for n in sorted(g.nodes):
            if np.sum(seg[int(tracks.get_time(n))] == n) == 0:
                continue
            for k in keys:
                tk = "pos" if k == pos_key else k
                a = norm(tracks.get_node_attr(n, k))
                b = norm(twin.get_node_attr(n, tk))
                if not _same_values(a, b):
                    bad.append((f"differential-{tk}", f"node {n}: incremental {k}={a}, from scratch {b}"))
    return bad


# ---------------------------------------------------------------------------
# C09

def true_iou(tracks, u, v):
    seg = tracks.segmentation
    a = seg[int(tracks.get_time(u))] == u
    b = seg[int(tracks.get_time(v))] == v
    inter = int(np.sum(a & b))
    union = int(np.sum(a | b))
    if union == 0:
        return None
    return float(Fraction(inter, union))


def iou_active(tracks):
    # enabled = active in the annotator, or registered in the feature registry as the managed
    # edge feature (a loaded IoU that the annotator was never told to maintain goes stale)
    return "iou" in tracks.annotators.features or (
        "iou" in tracks.features and "iou" in tracks.annotators.all_features)


def inv_c09(tracks, bulk=True):
    if tracks.segmentation is None or not iou_active(tracks):
        return []
    bad = []
    g = tracks.graph
    for u, v in sorted(g.edges):
        exp = true_iou(tracks, u, v)
        if exp is None:
            continue
        got = tracks.get_edge_attr((u, v), "iou")
        if got is None or not _same_values(norm(got), norm(exp), 1e-12):
            skip = int(tracks.get_time(v)) - int(tracks.get_time(u)) != 1
            bad.append(("iou-skip-edge" if skip else "iou", f"edge {(u, v)}: stored iou {got}, true overlap {exp}"))
    if bulk and not bad:
        try:
            twin = scratch_twin(tracks, ["iou"])
        except Exception as e:  # noqa: BLE001
            return [("bulk-raises", f"{type(e).__name__}: {e}")]
        for u, v in sorted(g.edges):
            a = norm(tracks.get_edge_attr((u, v), "iou"))
            b = norm(twin.get_edge_attr((u, v), "iou"))
            if not _same_values(a, b, 1e-12):
                skip = int(tracks.get_time(v)) - int(tracks.get_time(u)) != 1
                bad.append(("bulk-vs-incremental-skip-edge" if skip else "bulk-vs-incremental",
                            f"edge {(u, v)}: incremental {a}, bulk {b}"))
    return bad


INVARIANTS = {
    "C03": inv_c03,
    "C04": inv_c04,
    "C05": inv_c05,
    "C06": inv_c06,
    "C07": inv_c07,
    "C08": inv_c08,
    "C09": inv_c09,
}
