"""Canonical forms of a tracks object: observe / snapshot / BFS key / diff.

Normalisation is applied only where the public API itself does not distinguish:
numpy scalars -> python numbers, ndarray/tuple/list -> tuple, missing == None,
NaN == NaN, ints and floats compare by value.  Floats are compared exactly.
"""
from __future__ import annotations

import hashlib
import math

import numpy as np


def norm(v):
    if v is None:
        return None
    if isinstance(v, (bool, np.bool_)):
        return ("b", bool(v))
    if isinstance(v, np.generic):
        v = v.item()
    if isinstance(v, (int, float)):
        f = float(v)
        if math.isnan(f):
            return "nan"
        return f
    if isinstance(v, str):
        return ("s", v)
    if isinstance(v, np.ndarray):
        return tuple(norm(x) for x in v.tolist())
    if isinstance(v, (list, tuple)):
        return tuple(norm(x) for x in v)
    if isinstance(v, dict):
        return tuple(sorted(((str(k), norm(x)) for k, x in v.items()), key=repr))
    if isinstance(v, (set, frozenset)):
        return tuple(sorted((norm(x) for x in v), key=repr))
    return ("o", repr(v))


def _seg(tracks):
    seg = tracks.segmentation
    if seg is None:
        return None
    a = np.ascontiguousarray(seg)
    return (tuple(a.shape), a.dtype.str, a.tobytes())


def observe(tracks) -> dict:
    """Observable state: nodes/edges with every *registered* feature + array."""
    g = tracks.graph
    nkeys = sorted(tracks.features.node_features)
    ekeys = sorted(tracks.features.edge_features)
    nodes = {}
    for n in sorted(g.nodes):
        nodes[int(n)] = tuple((k, norm(tracks.get_node_attr(n, k))) for k in nkeys)
    edges = {}
    for u, v in sorted(g.edges):
        edges[(int(u), int(v))] = tuple(
            (k, norm(tracks.get_edge_attr((u, v), k))) for k in ekeys
        )
    return {"nodes": nodes, "edges": edges, "seg": _seg(tracks)}


def _action_fp(a):
    cls = type(a).__name__
    if hasattr(a, "actions"):
        return (cls, tuple(_action_fp(x) for x in a.actions))
    items = []
    for k, v in sorted(vars(a).items()):
        if k == "tracks":
            continue
        items.append((k, norm(v)))
    return (cls, tuple(items))


def lookups(tracks) -> dict:
    ta = getattr(tracks, "track_annotator", None)
    if ta is None:
        return {}
    def key(k):
        # a key that is not a number (e.g. None left behind by a half-applied action) must show up
        # in the comparison, not crash it
        try:
            return int(k)
        except (TypeError, ValueError):
            return repr(k)

    return {
        "tracklet": {
            key(k): sorted(int(x) for x in v)
            for k, v in ta.tracklet_id_to_nodes.items()
        },
        "lineage": {
            key(k): sorted(int(x) for x in v) for k, v in ta.lineage_id_to_nodes.items()
        },
        "max_tracklet": int(ta.max_tracklet_id),
        "max_lineage": int(ta.max_lineage_id),
    }


def registry(tracks) -> dict:
    f = tracks.features
    return {
        "features": {k: norm(dict(v)) for k, v in f.items()},
        "time_key": f.time_key,
        "position_key": norm(f.position_key),
        "tracklet_key": f.tracklet_key,
        "lineage_key": f.lineage_key,
        "annotators": [
            (type(a).__name__, tuple(sorted((k, bool(on)) for k, (_f, on) in a.all_features.items())))
            for a in tracks.annotators
        ],
    }


def snapshot(tracks, stacks: bool = True) -> dict:
    """Full state: observe + raw attrs + lookups + counters + registry + history."""
    g = tracks.graph
    s = observe(tracks)
    s["raw_nodes"] = {int(n): norm(dict(g.nodes[n])) for n in sorted(g.nodes)}
    s["raw_edges"] = {(int(u), int(v)): norm(dict(g.edges[u, v])) for u, v in sorted(g.edges)}
    s["lookups"] = lookups(tracks)
    s["node_id_counter"] = int(tracks.node_id_counter)
    s["scale"] = norm(tracks.scale)
    s["scale_type"] = type(tracks.scale).__name__
    s["ndim"] = tracks.ndim
    s["registry"] = registry(tracks)
    if stacks:
        # the history is compared structurally through its two stacks when they exist under
        # these names; a differently organised history object is compared by its repr-free
        # attribute fingerprint
        h = tracks.action_history
        us, rs = getattr(h, "undo_stack", None), getattr(h, "redo_stack", None)
        if isinstance(us, list) and isinstance(rs, list):
            s["undo_len"] = len(us)
            s["redo_len"] = len(rs)
            s["undo_fp"] = tuple(_action_fp(a) for a in us)
            s["redo_fp"] = tuple(_action_fp(a) for a in rs)
        else:
            s["history_fp"] = norm({k: (tuple(_action_fp(a) for a in v) if isinstance(v, list) else v)
                                    for k, v in vars(h).items()})
    return s


def state_key(tracks) -> str:
    """BFS key: everything an edit can read (incl. adjacency order), hashed."""
    s = snapshot(tracks, stacks=False)
    g = tracks.graph
    s["succ_order"] = {int(n): tuple(int(x) for x in g.successors(n)) for n in sorted(g.nodes)}
    return digest(s)


def digest(obj) -> str:
    return hashlib.blake2b(repr(_freeze(obj)).encode(), digest_size=12).hexdigest()


def _freeze(o):
    if isinstance(o, dict):
        return tuple((repr(k), _freeze(v)) for k, v in sorted(o.items(), key=lambda kv: repr(kv[0])))
    if isinstance(o, (list, tuple)):
        return tuple(_freeze(x) for x in o)
    if isinstance(o, bytes):
        return hashlib.blake2b(o, digest_size=12).hexdigest()
    return o


def diff(a, b, path="", out=None, limit=12):
    """Readable list of differences between two canonical structures."""
    if out is None:
        out = []
    if len(out) >= limit:
        return out
    if isinstance(a, dict) and isinstance(b, dict):
        for k in sorted(set(a) | set(b), key=repr):
            if k not in a:
                out.append(f"{path}/{k}: <absent> != {_short(b[k])}")
            elif k not in b:
                out.append(f"{path}/{k}: {_short(a[k])} != <absent>")
            else:
                diff(a[k], b[k], f"{path}/{k}", out, limit)
            if len(out) >= limit:
                break
        return out
    if isinstance(a, tuple) and isinstance(b, tuple) and len(a) == len(b) and not (
        len(a) == 3 and isinstance(a[2], bytes)
    ):
        for i, (x, y) in enumerate(zip(a, b)):
            if x != y:
                diff(x, y, f"{path}[{i}]", out, limit)
        return out
    if a != b:
        if isinstance(a, tuple) and len(a) == 3 and isinstance(a[2], bytes):
            out.append(f"{path}: segmentation differs: {_segdiff(a, b)}")
        else:
            out.append(f"{path}: {_short(a)} != {_short(b)}")
    return out


def _segdiff(a, b):
    try:
        x = np.frombuffer(a[2], dtype=np.dtype(a[1])).reshape(a[0])
        y = np.frombuffer(b[2], dtype=np.dtype(b[1])).reshape(b[0])
        idx = np.argwhere(x != y)
        return "; ".join(f"{tuple(int(v) for v in i)}: {x[tuple(i)]}!={y[tuple(i)]}" for i in idx[:6])
    except Exception as e:  # noqa: BLE001
        return f"(shape/dtype differ: {a[:2]} vs {b[:2]}; {e})"


def _short(v, n=160):
    s = repr(v)
    return s if len(s) <= n else s[:n] + "..."
