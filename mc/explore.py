"""E1: explicit-state BFS over real SolutionTracks objects.

A state *is* the (world, seed, event history) that reaches it; it is rebuilt as a
fresh object by replay, never deep-copied.  Every enabled and every refused event
of the alphabet is fired in every state; states are de-duplicated on
canon.state_key.  All oracles of the requested properties are evaluated on every
transition.
"""
from __future__ import annotations

import collections
import multiprocessing as mp
import os
import time

import numpy as np

from . import bind  # noqa: F401
from . import canon, events, oracles, worlds
from .events import apply_event, branch_tag, exc_tag

ALL_KINDS = ("del_node", "del_edge", "add_edge", "add_node", "swap", "set_attr", "paint")


class Cfg:
    """What one E1 run explores and checks."""

    def __init__(self, props, depth, kinds=None, undo_probe=False, c06_queries=True,
                 c08_differential=True, c09_bulk=True, extra=None):
        self.props = set(props)
        self.depth = depth
        self.kinds = tuple(kinds) if kinds else ALL_KINDS
        self.undo_probe = undo_probe
        self.c06_queries = c06_queries
        self.c08_differential = c08_differential
        self.c09_bulk = c09_bulk
        self.extra = extra or {}

    def to_json(self):
        return {"props": sorted(self.props), "depth": self.depth, "kinds": list(self.kinds),
                "undo_probe": self.undo_probe}


class ReplayDiverged(RuntimeError):
    """an event that was accepted when its state was first reached is not accepted when the same
    history is replayed on a fresh object"""


def rebuild(w, seed, history, _attempt=0):
    tracks = worlds.build(w, seed)
    events.attach_refresh_counter(tracks)
    for ev in history:
        out = apply_event(tracks, w, ev)
        if out.status == "hang" and _attempt < 2:
            # an event that was accepted when the state was first reached cannot loop: the
            # watchdog fired on an overloaded machine - start over with a larger limit
            saved = events.WATCHDOG_S
            events.WATCHDOG_S = saved * 4
            try:
                return rebuild(w, seed, history, _attempt + 1)
            finally:
                events.WATCHDOG_S = saved
        if out.status not in ("ok", "noop"):
            raise ReplayDiverged(f"HARNESS: replay of accepted event {ev!r} gave {out.status} {out.exc!r}")
    return tracks


def run_invariants(tracks, cfg, props):
    """-> {prop: [(clause, detail)]} for the props that have state invariants"""
    res = {}
    for p in props:
        f = oracles.INVARIANTS.get(p)
        if f is None:
            continue
        try:
            if p == "C06":
                r = f(tracks, queries=cfg.c06_queries)
            elif p == "C08":
                r = f(tracks, differential=cfg.c08_differential)
            elif p == "C09":
                r = f(tracks, bulk=cfg.c09_bulk)
            else:
                r = f(tracks)
        except events.Hang:
            raise
        except Exception as e:  # noqa: BLE001
            r = [("oracle-raises", f"{type(e).__name__}: {e}")]
        if r:
            res[p] = r
    return res


def topo_tag(pre, n):
    if n not in pre["indeg"]:
        return "x"
    tag = f"{pre['indeg'][n]}{pre['outdeg'][n]}"
    par = [a for (a, b) in pre["edges"] if b == n]
    if par and pre["outdeg"][par[0]] == 2:
        tag += "d"
    return tag


def ev_class(pre, ev):
    """coarse class of the event arguments (part of the violation signature)"""
    k = ev[0]
    if k == "add_edge":
        t = ""
        if ev[1] in pre["times"] and ev[2] in pre["times"]:
            d = pre["times"][ev[2]] - pre["times"][ev[1]]
            t = "fwd" if d > 0 else ("same" if d == 0 else "back")
        else:
            t = "unknown-node"
        return t + (":force" if ev[3] else "")
    if k == "add_node":
        return f"{ev[5]}:force" if ev[4] else str(ev[5])
    if k == "del_node":
        return str(ev[2]) if len(ev) > 2 else ""
    if k == "paint":
        v = ev[3]
        return ("erase" if v == 0 else ("existing" if v in pre["times"] else "new")) + (":force" if ev[5] else "")
    return ""


def ev_topo(pre, ev):
    k = ev[0]
    if k in ("add_edge", "del_edge"):
        return topo_tag(pre, ev[1]) + "-" + topo_tag(pre, ev[2])
    if k in ("del_node", "set_attr"):
        return topo_tag(pre, ev[1])
    if k == "swap":
        return "-".join(topo_tag(pre, n) for n in ev[1:])
    return ""


def mk_violation(prop, clause, detail, w, seed, history, ev, phase, tag, pre):
    sig = f"{prop}|{clause}|{ev[0]}|{phase}|{tag}|{ev_class(pre, ev)}"
    return {
        "property": prop, "clause": clause, "detail": detail, "phase": phase,
        "world": w["name"], "seed": worlds.seed_to_json(seed),
        "history": [events.ev_to_json(e) for e in history],
        "event": events.ev_to_json(ev), "signature": sig, "depth": len(history),
        "topology": ev_topo(pre, ev),
    }


class StatePre:
    """Everything about a pre-state that the transition oracles need."""

    def __init__(self, tracks, cfg):
        self.snap = canon.snapshot(tracks)
        self.obs = {k: self.snap[k] for k in ("nodes", "edges", "seg")}
        self.info = oracles.pre_info(tracks)
        self.bad = run_invariants(tracks, cfg, cfg.props)
        self.seg = None if tracks.segmentation is None else tracks.segmentation.copy()
        self.nodes = set(int(n) for n in tracks.graph.nodes)


def _drop_counters(snap):
    s = dict(snap)
    s.pop("node_id_counter", None)
    lk = dict(s.get("lookups", {}))
    lk.pop("max_tracklet", None)
    lk.pop("max_lineage", None)
    s["lookups"] = lk
    return s


class _SuspectedHang(Exception):
    pass


def fire(cfg, w, seed, history, ev, tracks, pre: StatePre, _retry=False):
    """Apply one event on `tracks` (which is in the pre-state) and evaluate all
    oracles.  Returns dict(status, key, violations, tags, reusable, post_bad).
    A watchdog expiry is only reported after the whole transition has been repeated on
    a freshly rebuilt object with a doubled limit and expired again."""
    if not _retry:
        try:
            return _fire(cfg, w, seed, history, ev, tracks, pre, confirm=False)
        except _SuspectedHang:
            saved = events.WATCHDOG_S
            events.WATCHDOG_S = saved * 2
            try:
                return _fire(cfg, w, seed, history, ev, rebuild(w, seed, history), pre, confirm=True)
            finally:
                events.WATCHDOG_S = saved
    return _fire(cfg, w, seed, history, ev, tracks, pre, confirm=True)


def _fire(cfg, w, seed, history, ev, tracks, pre: StatePre, confirm):
    props = cfg.props
    vio = []
    info = dict(pre.info)
    if ev[0] == "paint" and pre.seg is not None:
        t, pix = ev[1], ev[2]
        idx = tuple(np.array(a) for a in pix)
        info["paint_old"] = set(int(x) for x in pre.seg[t][idx]) - {0}
    out = apply_event(tracks, w, ev)
    res = {"status": out.status, "key": None, "violations": vio, "reusable": False,
           "tag": None, "post_bad": set()}

    def add(prop, clause, detail, phase, tag):
        vio.append(mk_violation(prop, clause, detail, w, seed, history, ev, phase, tag, info))

    if out.status == "noop":
        res["reusable"] = True
        return res
    if out.status == "hang":
        if not confirm:
            raise _SuspectedHang()
        if "C03" in props and "C03" not in pre.bad:
            add("C03", "hang", f"event {ev[:5]} did not terminate within {events.WATCHDOG_S}s", "apply", "hang")
        res["tag"] = "hang"
        return res
    if out.status == "raised":
        tag = exc_tag(out.exc)
        res["tag"] = tag
        snap = canon.snapshot(tracks)
        same = exact = snap == pre.snap
        if not same:
            # the id counters (largest id ever issued, node-id counter) are not part of
            # what C11 promises to leave untouched; C06 checks that fresh ids stay fresh
            same = _drop_counters(snap) == _drop_counters(pre.snap)
        res["reusable"] = exact and not out.refresh  # reuse the object only if bit-identical
        if "C11" in props:
            if not same:
                a, b = _drop_counters(pre.snap), _drop_counters(snap)
                # a difference confined to node attributes that are not registered features (e.g. the
                # seg_id column kept by the CSV importer) is its own clause
                only_raw = {k: v for k, v in a.items() if k != "raw_nodes"} == {k: v for k, v in b.items() if k != "raw_nodes"}
                add("C11", "unregistered-attribute-changed" if only_raw else "state-changed", "; ".join(canon.diff(a, b)), "refused", tag)
            if out.refresh:
                add("C11", "refresh-emitted", f"{len(out.refresh)} refresh emission(s) from a refused action", "refused", tag)
        if "C20" in props and out.refresh:
            add("C20", "refresh-on-refusal", f"{len(out.refresh)} emission(s) from a refused action", "refused", tag)
        if "C03" in props and "C03" not in pre.bad:
            for clause, detail in oracles.c03_transition(info, ev, out, tracks):
                add("C03", clause, detail, "refused", tag)
        if "C10" in props and ev[0] == "set_attr":
            pass
        return res
    # accepted -----------------------------------------------------------
    tag = branch_tag(out.action)
    res["tag"] = tag
    if ev[0].startswith("p_"):
        # primitive action: object-route inverse probe only; never a BFS successor
        res["status"] = "prim"
        if "C01" in props:
            _object_route_probe(tracks, pre, out.action, add, tag, confirm)
        return res
    if "C20" in props:
        exp_payload = None
        if ev[0] == "add_node":
            exp_payload = ev[1]
        elif ev[0] == "paint" and ev[3] != 0 and ev[3] not in pre.nodes:
            exp_payload = ev[3]
        if len(out.refresh) != 1:
            add("C20", "refresh-count", f"{len(out.refresh)} emissions from one accepted top-level action", "apply", tag)
        elif out.refresh[0] != exp_payload:
            add("C20", "refresh-payload", f"payload {out.refresh[0]!r}, expected {exp_payload!r}", "apply", tag)
        elif exp_payload is not None and exp_payload not in tracks.graph:
            add("C20", "refresh-payload-not-a-node", f"refresh announces new node {exp_payload!r} but no such node exists after the action", "apply", tag)
    post_bad = run_invariants(tracks, cfg, props)
    res["post_bad"] = set(post_bad)
    for p, lst in post_bad.items():
        if p in pre.bad:
            continue  # tainted pre-state: attribute only the first offending step
        for clause, detail in lst[:3]:
            add(p, clause, detail, "apply", tag)
    if "C03" in props and "C03" not in pre.bad:
        for clause, detail in oracles.c03_transition(info, ev, out, tracks):
            add("C03", clause, detail, "apply", tag)
    for p, which in (("C04", "track"), ("C05", "lineage")):
        if p in props and p not in pre.bad:
            for clause, detail in oracles.frame_clause(info, ev, tracks, which)[:3]:
                add(p, clause, detail, "apply", tag)
    if "C07" in props and ev[0] == "paint" and pre.seg is not None:
        exp = pre.seg.copy()
        cidx, _old, value = out.painted
        exp[cidx] = value
        if not np.array_equal(exp, tracks.segmentation):
            d = np.argwhere(exp != tracks.segmentation)
            add("C07", "not-as-painted", f"array differs from the painted array at {[tuple(int(v) for v in i) for i in d[:5]]}", "apply", tag)
    res["key"] = canon.state_key(tracks)
    if cfg.undo_probe:
        _undo_probe(cfg, tracks, pre, add, tag, ev, set(post_bad), confirm)
    return res


def _object_route_probe(tracks, pre, action, add, tag, confirm=True):
    """a.inverse() -> pre ; .inverse() -> post ; .inverse() -> pre (object route)"""
    post_obs = canon.observe(tracks)
    cur = action
    for i, expect in enumerate((pre.obs, post_obs, pre.obs)):
        phase = f"inverse{i + 1}"
        try:
            cur = events.with_watchdog(cur.inverse)
        except events.Hang:
            if not confirm:
                raise _SuspectedHang() from None
            add("C01", "inverse-hangs", "inverse() did not terminate", phase, tag)
            return
        except Exception as e:  # noqa: BLE001
            add("C01", "inverse-raises", f"inverse() raised {type(e).__name__}: {e}", phase, tag)
            return
        obs = canon.observe(tracks)
        if obs != expect:
            add("C01", "inverse-does-not-restore" if i != 1 else "double-inverse-does-not-reproduce",
                "; ".join(canon.diff(expect, obs)), phase, tag)
            return


def _undo_probe(cfg, tracks, pre, add, tag, ev, post_bad=frozenset(), confirm=True):
    """undo -> pre, redo -> post, undo -> pre on the object that just took `ev`"""
    props = cfg.props
    post_obs = canon.observe(tracks)
    box = tracks._mc_refresh
    seq = (("undo", pre.obs), ("redo", post_obs), ("undo", pre.obs))
    for i, (op, expect) in enumerate(seq):
        phase = f"{op}{i // 2 + 1}" if op == "undo" else "redo"
        n0 = len(box)
        try:
            r = events.with_watchdog(tracks.undo if op == "undo" else tracks.redo)
        except events.Hang:
            if not confirm:
                raise _SuspectedHang() from None
            if "C01" in props:
                add("C01", "inverse-hangs", f"{op} did not terminate", phase, tag)
            return
        except Exception as e:  # noqa: BLE001
            if "C01" in props:
                add("C01", "inverse-raises", f"{op} raised {type(e).__name__}: {e}", phase, tag)
            return
        if r is not True:
            if "C01" in props or "C02" in props:
                add("C02" if "C02" in props else "C01", "undo-returned-false", f"{op} returned {r!r} right after an accepted action", phase, tag)
            return
        if "C20" in props and len(box) - n0 != 1:
            add("C20", f"refresh-count-{op}", f"{len(box) - n0} emissions from one successful {op}", phase, tag)
        obs = canon.observe(tracks)
        mismatch = obs != expect
        if mismatch:
            d = "; ".join(canon.diff(expect, obs))
            if "C01" in props:
                add("C01", f"{op}-does-not-restore", d, phase, tag)
            if "C07" in props and obs["seg"] != expect["seg"] and ev[0] == "paint":
                add("C07", f"{op}-array", d, phase, tag)
        # state invariants after undo / redo (the property texts say "undo or redo"); they are
        # evaluated on whatever state the undo / redo produced
        inv_props = [p for p in props if p in oracles.INVARIANTS and p not in pre.bad
                     and not (op == "redo" and p in post_bad)]
        bad = run_invariants(tracks, cfg, inv_props)
        for p, lst in bad.items():
            for clause, detail in lst[:2]:
                add(p, clause, detail, phase, tag)
        if bad or mismatch:
            return


def _diverged(cfg, w, wname, seed, seed_j, history, stats, tags, e):
    """The same history, replayed on a fresh object in this long-lived worker, did not do what it
    did before.  The harness is deterministic, so either it is broken or the library carries state
    from one object to the next.  Recorded as a candidate violation; the reporting step replays it in
    fresh interpreters and counts it only if it reproduces there (a single replay in a clean process
    cannot diverge, so by itself this ends as a harness error, never as a silent pass)."""
    vio = [mk_violation(p, "history-not-replayable", f"{e}", w, seed, history[:-1], history[-1], "replay", "diverged",
                        {"times": {}, "indeg": {}, "outdeg": {}, "edges": set()}) for p in sorted(cfg.props)]
    return {"key": f"diverged:{wname}:{seed_j}:{len(history)}", "succ": [], "violations": vio, "stats": stats, "tags": tags,
            "nevents": 0, "tainted": sorted(cfg.props)}


def expand(task):
    """Worker: expand one state = fire every event of the alphabet from it."""
    cfg, wname, seed_j, history_j, want_succ = task
    w = worlds.world(wname)
    seed = worlds.seed_from_json(seed_j)
    history = [events.ev_from_json(e) for e in history_j]
    stats = collections.Counter()
    tags = set()
    t0 = time.time()
    try:
        tracks = events.with_watchdog(lambda: rebuild(w, seed, history), 30)
    except (Exception, events.Hang) as e:  # noqa: BLE001
        if history and isinstance(e, ReplayDiverged):
            return _diverged(cfg, w, wname, seed, seed_j, history, stats, tags, e)
        if history:
            raise  # a state that was reached before must be reachable again
        # the constructor / feature set-up itself fails on a valid seed
        vio = []
        for p in sorted(cfg.props):
            vio.append(mk_violation(p, "construct-raises", f"building world {wname} seed {seed_j} raised {type(e).__name__}: {e}",
                                    w, seed, [], ("construct",), "construct", type(e).__name__,
                                    {"times": {}, "indeg": {}, "outdeg": {}, "edges": set()}))
        return {"key": f"construct-failed:{wname}:{seed_j}", "succ": [], "violations": vio, "stats": stats, "tags": tags,
                "nevents": 0, "tainted": sorted(cfg.props)}
    pre = StatePre(tracks, cfg)
    own_key = canon.state_key(tracks)
    vio = []
    succ = []
    # violations of the seed/constructor itself (depth 0 only)
    if not history:
        for p, lst in pre.bad.items():
            for clause, detail in lst[:3]:
                vio.append(mk_violation(p, clause, detail, w, seed, [], ("construct",), "construct", "constructor", pre.info))
        if w["ids"] in ("given", "featuredict", "given0", "givenbig"):
            # valid ids that come with the graph are kept, not recomputed
            g0, _seg0 = worlds.make_graph(w, seed)
            for p, key in (("C04", w["keys"]["track"]), ("C05", w["keys"]["lineage"])):
                if p in cfg.props:
                    changed = {n: (g0.nodes[n][key], tracks.get_node_attr(n, key)) for n in g0.nodes
                               if g0.nodes[n][key] != tracks.get_node_attr(n, key)}
                    if changed:
                        vio.append(mk_violation(p, "constructor-changed-given-ids", f"{key} given -> stored: {changed}", w, seed, [],
                                                ("construct",), "construct", "constructor", pre.info))
    evs = events.enabled_events(tracks, w, cfg.kinds)
    if "primitive" in cfg.kinds:
        evs = evs + events.primitive_events(tracks, w)
    fresh = True
    for ev in evs:
        if not fresh:
            try:
                tracks = rebuild(w, seed, history)
            except ReplayDiverged as e:
                d = _diverged(cfg, w, wname, seed, seed_j, history, stats, tags, e)
                vio.extend(d["violations"])
                break
        r = fire(cfg, w, seed, history, ev, tracks, pre)
        fresh = r["reusable"]
        stats[f"{ev[0]}:{r['status']}"] += 1
        stats["transitions"] += 1
        if r["tag"]:
            tags.add(f"{ev[0]}:{r['status']}:{r['tag']}")
        vio.extend(r["violations"])
        if r["status"] == "ok" and want_succ:
            succ.append((r["key"], events.ev_to_json(ev), sorted(r["post_bad"])))
        elif r["status"] == "ok":
            succ.append((r["key"], None, sorted(r["post_bad"])))
    stats["wall_ms"] = int((time.time() - t0) * 1000)
    return {"key": own_key, "succ": succ, "violations": vio, "stats": stats, "tags": tags,
            "nevents": len(evs), "tainted": sorted(pre.bad)}


_POOL = None


def pool(jobs=None):
    global _POOL
    if _POOL is None:
        jobs = jobs or int(os.environ.get("VERIF_JOBS", "0")) or min(16, os.cpu_count() or 1)
        if jobs <= 1:
            _POOL = False
        else:
            ctx = mp.get_context("fork")
            _POOL = ctx.Pool(jobs, maxtasksperchild=2000)
    return _POOL


def pmap(fn, tasks, chunk=None):
    p = pool()
    if not p:
        return [fn(t) for t in tasks]
    if not tasks:
        return []
    seed = int(os.environ.get("VERIF_SEED", "0") or 0)
    n = len(tasks)
    order = list(range(n))
    if seed:
        k = seed % n
        order = order[k:] + order[:k]
    chunk = chunk or max(1, min(32, n // (4 * 16) or 1))
    res = p.map(fn, [tasks[i] for i in order], chunksize=chunk)
    out = [None] * n
    for i, r in zip(order, res):
        out[i] = r
    return out


def run(cfg, world_seeds, deadline=None, max_states=None, log=print, collect_states=False):
    """Level-synchronous BFS.  world_seeds: list of (world name, seed (name|dict))."""
    t_start = time.time()
    seen = {}
    frontier = []
    for wname, seed in world_seeds:
        frontier.append((wname, worlds.seed_to_json(seed), []))
    total = collections.Counter()
    tags = set()
    violations = []
    samples = []
    completed_depth = -1
    capped = None
    tainted_states = 0
    per_level = []
    state_list = {}
    if collect_states:
        for i, item in enumerate(frontier):
            state_list[("seed", i)] = item
    for depth in range(cfg.depth + 1):
        last = depth == cfg.depth
        if last:
            break
        if deadline and time.time() > deadline:
            capped = f"time budget reached before level {depth} was expanded"
            break
        if max_states and len(frontier) > max_states:
            capped = f"level {depth} has {len(frontier)} states > cap {max_states}"
            break
        want_succ = depth + 1 < cfg.depth or collect_states
        tasks = [(cfg, wn, sj, hj, want_succ) for (wn, sj, hj) in frontier]
        results = pmap(expand, tasks)
        new_frontier = []
        for (wn, sj, hj), r in zip(frontier, results):
            if depth == 0:
                seen.setdefault((wn, r["key"]), 0)
            total.update(r["stats"])
            tags |= r["tags"]
            violations.extend(r["violations"])
            if r["tainted"]:
                tainted_states += 1
            if len(samples) < 3 and hj:
                samples.append({"world": wn, "seed": sj, "history": hj})
            for key, evj, _pb in r["succ"]:
                k = (wn, key)
                if k in seen:
                    continue
                seen[k] = depth + 1
                if evj is not None:
                    new_frontier.append((wn, sj, hj + [evj]))
                    if collect_states:
                        state_list[k] = (wn, sj, hj + [evj])
        per_level.append({"depth": depth, "expanded": len(frontier), "new_states": len(new_frontier) if want_succ else None})
        log(f"  level {depth}: expanded {len(frontier)} states, {total['transitions']} transitions so far, "
            f"{len(seen)} distinct states, {len(violations)} raw violations, {time.time() - t_start:.1f}s")
        completed_depth = depth + 1
        frontier = new_frontier
    return {
        "states": len(seen), "transitions": total["transitions"], "stats": dict(total),
        "tags": sorted(tags), "violations": violations, "samples": samples,
        "completed_depth": completed_depth, "capped": capped, "tainted_states": tainted_states,
        "per_level": per_level, "wall_s": time.time() - t_start,
        "state_list": list(state_list.values()),
    }
