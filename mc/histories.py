"""E2: exhaustive tree of all call sequences over a finite menu, no state merging.

Every sequence of length <= L over the menu is executed from scratch on a fresh
real object, in lock step with a small reference model; only the checks of the
*last* call of each sequence are reported (the prefix was reported when it was
itself the sequence under test).  The tree is enumerated level by level; a
sequence whose last call violated something is not extended (its model is out of
sync), which is reported in the coverage as `pruned`.
"""
from __future__ import annotations

import collections
import time

from . import bind  # noqa: F401
from . import canon, events, explore, oracles, worlds
from .events import apply_event

UNDO = ("undo",)
REDO = ("redo",)


def _vio(prop, clause, detail, menu, path, phase="seq", tag="", ctx=None):
    ev = path[-1] if path else ("construct",)
    kinds = ">".join(e[0] for e in path[-3:])
    if ctx is not None:
        sig = f"{prop}|{clause}|{ev[0]}|{ctx}"
    else:
        sig = f"{prop}|{clause}|{ev[0]}|{phase}|{tag}|{menu['name']}"
    return {
        "property": prop, "clause": clause, "detail": detail, "phase": phase,
        "world": menu["world"], "seed": worlds.seed_to_json(menu["seed"]),
        "history": [events.ev_to_json(e) for e in path[:-1]],
        "event": events.ev_to_json(ev), "signature": sig, "depth": len(path),
        "menu": menu["name"], "last_kinds": kinds, "engine": "E2",
    }


# ---------------------------------------------------------------------------
# C02: timeline reference model

class Timeline:
    def __init__(self, s0):
        self.states = [s0]
        self.cursor = 0

    def edit(self, s):
        self.states.extend(reversed(self.states[self.cursor:-1]))
        self.states.append(s)
        self.cursor = len(self.states) - 1

    def can_undo(self):
        return self.cursor > 0

    def can_redo(self):
        return self.cursor < len(self.states) - 1

    @property
    def current(self):
        return self.states[self.cursor]


def run_path_c02(menu, path, is_leaf, inv_props=()):
    """Execute `path` from scratch; report violations of its last call only."""
    w = worlds.world(menu["world"])
    try:
        tracks = explore.rebuild(w, menu["seed"], [])
    except events.Hang:
        raise
    except Exception as e:  # noqa: BLE001
        # the configuration of the menu cannot even be built: reported once (empty path only)
        return True, ([_vio("C02", "construct-raises", f"{type(e).__name__}: {e}", menu, [])] if len(path) <= 1 else []), ""
    tl = Timeline(canon.observe(tracks))
    vio = []
    dead = False
    tagl = ""
    cfg = explore.Cfg(props=inv_props, depth=0)
    for i, ev in enumerate(path):
        last = i == len(path) - 1
        pre_snap = canon.snapshot(tracks) if last and ev in (UNDO, REDO) else None
        out = apply_event(tracks, w, ev)
        if ev == UNDO or ev == REDO:
            exp = tl.can_undo() if ev == UNDO else tl.can_redo()
            if out.status != "ok":
                if last:
                    vio.append(_vio("C02", "undo-redo-raises", f"{ev[0]} -> {out.status} {out.exc!r}", menu, path))
                return True, vio, tagl
            ret = out.action
            if exp:
                tl.cursor += -1 if ev == UNDO else 1
            if last:
                tagl = f"{ev[0]}:{ret}"
                if ret is not exp:
                    vio.append(_vio("C02", "wrong-return", f"{ev[0]}() returned {ret!r}, timeline (len {len(tl.states)}, cursor {tl.cursor}) says {exp}", menu, path))
                    dead = True
                if not exp and out.refresh:
                    # the timeline has nothing to step to, whatever the call claims to have done
                    vio.append(_vio("C20", "refresh-on-noop", f"{len(out.refresh)} emission(s) from {ev[0]}() (returned {ret!r}) with nothing to step to", menu, path))
                if not exp and ret is False:
                    snap = canon.snapshot(tracks)
                    if snap != pre_snap:
                        vio.append(_vio("C02", "false-step-changed-state", "; ".join(canon.diff(pre_snap, snap)), menu, path))
                        dead = True
                if ret is True and len(out.refresh) != 1:
                    vio.append(_vio("C20", "refresh-count-" + ev[0], f"{len(out.refresh)} emission(s) from a successful {ev[0]}", menu, path))
        else:
            if out.status == "ok":
                tl.edit(canon.observe(tracks))
                if last:
                    tagl = "edit:ok"
                    # "one top-level action = one step" is judged observably: the sequences that
                    # continue with undo / undo / ... must follow the timeline (wrong-return,
                    # state-differs-from-timeline); the internal stack lengths are not consulted
                    if len(out.refresh) != 1:
                        vio.append(_vio("C20", "refresh-count", f"{len(out.refresh)} emission(s) from one accepted action", menu, path))
            elif out.status == "raised":
                if last:
                    tagl = "edit:refused"
                    if out.refresh:
                        vio.append(_vio("C20", "refresh-on-refusal", f"{len(out.refresh)} emission(s)", menu, path))
            elif out.status == "hang":
                if last:
                    vio.append(_vio("C03", "hang", f"{ev[:4]} did not terminate", menu, path))
                return True, vio, tagl
        if last:
            obs = canon.observe(tracks)
            if obs != tl.current:
                vio.append(_vio("C02", "state-differs-from-timeline",
                                f"after {ev[0]}: " + "; ".join(canon.diff(tl.current, obs)), menu, path))
                dead = True
                if "C07" in inv_props and ev in (UNDO, REDO) and obs["seg"] != tl.current["seg"]:
                    vio.append(_vio("C07", "array-not-restored-by-" + ev[0],
                                    "; ".join(canon.diff({"seg": tl.current["seg"]}, {"seg": obs["seg"]})), menu, path, phase=ev[0]))
            if inv_props and (ev in (UNDO, REDO) or menu.get("inv_every_call")):
                # evaluated on whatever state the undo / redo (any call, for menus that the BFS
                # stages do not cover) produced
                bad = explore.run_invariants(tracks, cfg, inv_props)
                for p, lst in bad.items():
                    for clause, detail in lst[:2]:
                        vio.append(_vio(p, clause, detail, menu, path, phase=ev[0]))
    if is_leaf and not dead and path:
        # every state ever visited stays reachable: undo until False
        expect = tl.states[tl.cursor::-1]
        seen = [canon.observe(tracks)]
        guard = 0
        while True:
            guard += 1
            if guard > len(tl.states) + 5:
                vio.append(_vio("C02", "undo-never-false", f"undo() still True after {guard} steps, timeline has {len(tl.states)} states", menu, path, phase="unwind"))
                break
            out = apply_event(tracks, w, UNDO)
            if out.status != "ok":
                vio.append(_vio("C02", "undo-redo-raises", f"unwinding: {out.status} {out.exc!r}", menu, path, phase="unwind"))
                break
            if out.action is not True:
                break
            seen.append(canon.observe(tracks))
        if not vio and seen != expect:
            k = next((j for j, (a, b) in enumerate(zip(seen, expect)) if a != b), min(len(seen), len(expect)))
            vio.append(_vio("C02", "unwind-differs",
                            f"undoing to the start visits {len(seen)} states, timeline predicts {len(expect)}; first difference at step {k}",
                            menu, path, phase="unwind"))
    return dead, vio, tagl


# ---------------------------------------------------------------------------
# C10: feature switching model

def run_path_c10(menu, path, is_leaf, alias=None):
    """alias: {clause: property id} - report a clause under another property (the value
    oracles of C08 / C09 are re-used for histories that switch features on and off)"""
    w = worlds.world(menu["world"])
    try:
        tracks = explore.rebuild(w, menu["seed"], [])
    except events.Hang:
        raise
    except Exception as e:  # noqa: BLE001
        p0 = (alias or {}).get("construct-raises", "C10")
        return True, ([globals()["_vio"](p0, "construct-raises", f"{type(e).__name__}: {e}", menu, [], ctx="plain")] if len(path) <= 1 else []), ""
    ann_keys = set(tracks.annotators.all_features)
    enabled = set(tracks.annotators.features)
    static = set(tracks.features) - ann_keys
    vio = []
    dead = False
    tagl = ""
    cfg = explore.Cfg(props=("C04", "C05", "C08", "C09"), depth=0)
    tkey, lkey = tracks.features.tracklet_key, tracks.features.lineage_key
    recomputed = set()
    was_off = False
    # features whose values on the graph were handed in stale with a pre-built FeatureDict: they
    # are only held to the reference values after an explicit enable (= recomputation)
    unverified = set(w.get("stale", ()))

    def _vio(prop, clause, detail, menu, path, phase="seq", tag=""):  # noqa: ARG001
        nonlocal was_off
        # context class: which core id features are switched off now / were recomputed
        # (renumbered) earlier in this history
        if was_off:
            ctx = "track_id-disabled-in-history"
        elif recomputed:
            ctx = "core-ids-recomputed-in-history"
        else:
            ctx = "plain"
        prop = (alias or {}).get(clause, prop)
        return globals()["_vio"](prop, clause, detail, menu, path, ctx=ctx)

    for i, ev in enumerate(path):
        last = i == len(path) - 1
        pre_snap = canon.snapshot(tracks) if last else None
        pre_raw = None
        if last:
            pre_raw = _raw_values(tracks, ann_keys - enabled)
        out = apply_event(tracks, w, ev)
        if ev[0] in ("enable", "disable"):
            keys = list(ev[1])
            unknown = [k for k in keys if k not in ann_keys]
            if unknown:
                if last:
                    tagl = f"{ev[0]}:unknown"
                    if out.status != "raised" or not isinstance(out.exc, KeyError):
                        vio.append(_vio("C10", "unknown-feature-not-keyerror", f"{ev} -> {out.status} {out.exc!r}", menu, path))
                        dead = True
                    snap = canon.snapshot(tracks)
                    if snap != pre_snap:
                        vio.append(_vio("C10", "unknown-feature-changed-state", "; ".join(canon.diff(pre_snap, snap)), menu, path))
                        dead = True
                elif out.status != "raised":
                    return True, vio, tagl
            else:
                if out.status != "ok":
                    if last:
                        vio.append(_vio("C10", "switch-raises", f"{ev} -> {out.status} {out.exc!r}", menu, path))
                    return True, vio, tagl
                if ev[0] == "enable":
                    enabled |= set(keys)
                    unverified -= set(keys)
                    recomputed |= set(keys) & {tkey, lkey}
                else:
                    enabled -= set(keys)
                    if tkey in keys:
                        was_off = True
                if last:
                    tagl = ev[0]
        elif ev in (UNDO, REDO):
            if out.status != "ok":
                if last:
                    vio.append(_vio("C10", "undo-redo-raises", f"{ev[0]} -> {out.status} {out.exc!r} (features enabled: {sorted(enabled)})", menu, path))
                return True, vio, tagl
            if last:
                tagl = f"{ev[0]}:{out.action}"
        else:
            if out.status == "hang":
                return True, vio, tagl
            if last:
                tagl = f"edit:{out.status}"
                if ev[0] == "set_attr" and ev[2] in (ann_keys | {tracks.features.time_key}):
                    if out.status != "raised" or not isinstance(out.exc, ValueError):
                        vio.append(_vio("C10", "managed-attr-not-refused", f"set_attr {ev[2]!r} -> {out.status} {out.exc!r} (enabled: {sorted(enabled)})", menu, path))
                        dead = True
        if last and not dead:
            reg = set(tracks.features)
            if reg != static | enabled:
                vio.append(_vio("C10", "registry-mismatch", f"registry {sorted(reg)} != static {sorted(static)} + enabled {sorted(enabled)}", menu, path))
                dead = True
            act = set(tracks.annotators.features)
            if act != enabled:
                vio.append(_vio("C10", "active-set-mismatch", f"annotators active {sorted(act)} != enabled {sorted(enabled)}", menu, path))
                dead = True
            # disabled features are not changed by edits / undo / redo
            if ev[0] not in ("enable", "disable") and out.status == "ok":
                now = _raw_values(tracks, ann_keys - enabled)
                for k in sorted(now):
                    for elem in sorted(now[k], key=repr):
                        if elem in pre_raw.get(k, {}) and pre_raw[k][elem] != now[k][elem]:
                            vio.append(_vio("C10", "disabled-feature-changed", f"{k} of {elem}: {pre_raw[k][elem]} -> {now[k][elem]} by {ev[0]}", menu, path))
                            dead = True
                            break
            # enabled features hold the reference values
            if not dead:
                vals = _enabled_values_ok(tracks, cfg, enabled, unverified)
                for clause, detail in vals[:2]:
                    vio.append(_vio("C10", clause, detail + f" (enabled: {sorted(enabled)})", menu, path,
                                    tag="after-" + ev[0]))
                    dead = True
    return dead, vio, tagl


def _raw_values(tracks, keys):
    g = tracks.graph
    out = {}
    for k in keys:
        d = {}
        for n in g.nodes:
            if k in g.nodes[n]:
                d[int(n)] = canon.norm(g.nodes[n][k])
        for u, v in g.edges:
            if k in g.edges[u, v]:
                d[(int(u), int(v))] = canon.norm(g.edges[u, v][k])
        out[k] = d
    return out


def _enabled_values_ok(tracks, cfg, enabled, unverified=()):
    bad = []
    f = tracks.features
    if f.tracklet_key in enabled:
        bad += [("enabled-track-ids-wrong", d) for c, d in oracles.inv_c04(tracks)]
    if f.lineage_key in enabled:
        bad += [("enabled-lineage-ids-wrong", d) for c, d in oracles.inv_c05(tracks)]
    if f.tracklet_key in enabled:
        bad += [("enabled-lookups-wrong", f"{c}: {d}") for c, d in oracles.inv_c06(tracks, queries=False)
                if c.startswith("track") or (c.startswith("lineage") and f.lineage_key in enabled)]
    if tracks.segmentation is not None:
        bad += [("enabled-regionprops-wrong", f"{c}: {d}") for c, d in oracles.inv_c08(tracks, differential=True, skip=unverified)]
        bad += [("enabled-iou-wrong", f"{c}: {d}") for c, d in oracles.inv_c09(tracks, bulk=False)]
    return bad


RUNNERS = {"C02": run_path_c02, "C10": run_path_c10}


# ---------------------------------------------------------------------------
# level-synchronous enumeration of the whole tree

def _run_confirmed(runner, menu, path, is_leaf, kwargs):
    """run one sequence; anything that looks like a watchdog expiry is only believed after the
    whole sequence has been repeated from scratch with a much larger limit"""
    dead, vio, tag = runner(menu, path, is_leaf, **kwargs)
    if any("hang" in (str(v.get("clause")) + " " + str(v.get("detail"))) for v in vio):
        saved = events.WATCHDOG_S
        events.WATCHDOG_S = saved * 5
        try:
            dead, vio, tag = runner(menu, path, is_leaf, **kwargs)
        finally:
            events.WATCHDOG_S = saved
    return dead, vio, tag


def _expand_parent(task):
    runner_name, menu, parent, L, kwargs = task
    runner = RUNNERS[runner_name]
    items = menu["items"]
    res = []
    for k, ev in enumerate(items):
        path = parent + [ev]
        dead, vio, tag = _run_confirmed(runner, menu, path, len(path) == L, kwargs)
        res.append((k, dead, vio, tag))
    return res


def full_alphabet_items(menu, parent):
    """M3: the menu of a node is the full state-dependent alphabet"""
    w = worlds.world(menu["world"])
    tracks = explore.rebuild(w, menu["seed"], [])
    for ev in parent:
        apply_event(tracks, w, ev)
    return events.enabled_events(tracks, w, menu.get("kinds")) + [UNDO, REDO]


def _expand_parent_full(task):
    runner_name, menu, parent, L, kwargs = task
    runner = RUNNERS[runner_name]
    items = full_alphabet_items(menu, parent)
    res = []
    for k, ev in enumerate(items):
        path = parent + [ev]
        dead, vio, tag = _run_confirmed(runner, menu, path, len(path) == L, kwargs)
        res.append((ev, dead, vio, tag))
    return res


def run_tree(runner_name, menu, L, deadline=None, log=print, **kwargs):
    t0 = time.time()
    full = menu.get("full_alphabet", False)
    level = [[]]
    n_seq = 0
    n_calls = 0
    pruned = 0
    vio = []
    tags = collections.Counter()
    completed = 0
    capped = None
    samples = []
    for depth in range(1, L + 1):
        if deadline and time.time() > deadline:
            capped = f"time budget reached before length {depth} (completed all sequences of length <= {completed})"
            break
        tasks = [(runner_name, menu, parent, L, kwargs) for parent in level]
        results = explore.pmap(_expand_parent_full if full else _expand_parent, tasks)
        nxt = []
        for parent, res in zip(level, results):
            for k, dead, v, tag in res:
                ev = k if full else menu["items"][k]
                n_seq += 1
                n_calls += depth
                tags[tag] += 1
                vio.extend(v)
                if dead:
                    pruned += 1
                elif depth < L:
                    nxt.append(parent + [ev])
                if len(samples) < 3 and depth == L:
                    samples.append([events.ev_to_json(e) for e in parent + [ev]])
        completed = depth
        log(f"  {menu['name']}: length {depth}: {n_seq} sequences so far, {len(vio)} raw violations, {time.time() - t0:.1f}s")
        level = nxt
    return {"sequences": n_seq, "calls": n_calls, "pruned": pruned, "violations": vio,
            "tags": dict(tags), "completed_length": completed, "capped": capped, "samples": samples,
            "wall_s": time.time() - t0}
