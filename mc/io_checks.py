"""File I/O based checks: C12 (import), C14 (round trip), C15 (subset export),
C16 (read-only operations).  All files go to a per-call temporary directory that
is removed immediately."""
from __future__ import annotations

import itertools
import pathlib
import shutil
import tempfile

import networkx as nx
import numpy as np
import pandas as pd

from . import bind  # noqa: F401
from . import canon, events, explore, worlds
from .canon import norm
from .smallscope import vio


def _tmp():
    # zarr stores are thousands of tiny files: use the RAM disk when there is one
    import os
    base = os.environ.get("VERIF_TMP")
    if base is None and os.path.isdir("/dev/shm") and os.access("/dev/shm", os.W_OK):
        base = "/dev/shm"
    return pathlib.Path(tempfile.mkdtemp(prefix="mcv_", dir=base))


# ===========================================================================
# shared: what a format promises to carry

def _basic(tracks):
    g = tracks.graph
    d = {"nodes": sorted(int(n) for n in g.nodes), "edges": sorted((int(u), int(v)) for u, v in g.edges)}
    d["time"] = {int(n): int(tracks.get_time(n)) for n in g.nodes}
    d["pos"] = {int(n): norm(tracks.get_position(n)) for n in g.nodes}
    d["track_id"] = {int(n): norm(tracks.get_track_id(n)) for n in g.nodes}
    return d


def _node_feats(tracks, keys):
    return {k: {int(n): norm(tracks.get_node_attr(n, k)) for n in tracks.graph.nodes} for k in keys}


def _edge_feats(tracks, keys):
    return {k: {(int(u), int(v)): norm(tracks.get_edge_attr((u, v), k)) for u, v in tracks.graph.edges} for k in keys}


def _axes(w):
    return ["y", "x"] if w["ndim"] == 3 else ["z", "y", "x"]


# ===========================================================================
# C14 round trips

def roundtrip_state(task):
    wname, seed_j, hist_j, formats = task
    w = worlds.world(wname)
    seed = worlds.seed_from_json(seed_j)
    history = [events.ev_from_json(e) for e in hist_j]
    out = []
    case = {"world": wname, "seed": seed_j, "history": hist_j}
    n_rt = 0
    for fmt in formats:
        tracks = explore.rebuild(w, seed, history)
        if tracks.graph.number_of_nodes() == 0:
            continue
        d = _tmp()
        try:
            try:
                v = events.with_watchdog(lambda: _roundtrip(tracks, w, fmt, d, dict(case, format=fmt)), 60)
            except events.Hang:  # believed only when it happens twice, the second time with a 5x limit
                shutil.rmtree(d, ignore_errors=True)
                d = _tmp()
                tracks = explore.rebuild(w, seed, history)
                v = events.with_watchdog(lambda: _roundtrip(tracks, w, fmt, d, dict(case, format=fmt)), 300)
            out.extend(v)
            n_rt += 1
        except events.Hang:
            out.append(vio("C14", "hang", "round trip did not terminate", dict(case, format=fmt), "roundtrip", fmt))
        finally:
            shutil.rmtree(d, ignore_errors=True)
    return n_rt, out


def _roundtrip(tracks, w, fmt, d, case):
    from funtracks.import_export import export_to_csv, export_to_geff, import_from_geff
    from funtracks.import_export.csv._import import tracks_from_df
    from funtracks.import_export.internal_format import load_tracks, save_tracks
    before = _basic(tracks)
    axes = _axes(w)
    f = tracks.features
    out = []

    def cmp(a, b, what, cls=""):
        if a != b:
            out.append(vio("C14", f"{what}-differs", f"{fmt}: " + "; ".join(canon.diff(a, b)), case, "roundtrip", f"{fmt}:{cls or what}"))

    try:
        if fmt == "csv":
            export_to_csv(tracks, d / "t.csv")
            df = pd.read_csv(d / "t.csv", float_precision="round_trip")
            back = tracks_from_df(df, node_name_map={"time": "t", "pos": axes, "id": "id", "parent_id": "parent_id", "track_id": "track_id"})
            cmp(before, _basic(back), "basic")
        elif fmt == "geff":
            export_to_geff(tracks, d / "g")
            nkeys = [k for k in f.node_features if k not in (f.time_key,) and k != f.position_key and not (isinstance(f.position_key, list) and k in f.position_key)]
            # a property that no node / edge carries is not written to the store at all
            g0 = tracks.graph
            nkeys = [k for k in nkeys if any(k in g0.nodes[n] and g0.nodes[n][k] is not None for n in g0.nodes)]
            ekeys = [k for k in f.edge_features if any(k in g0.edges[e] and g0.edges[e][k] is not None for e in g0.edges)]
            nmap = {"time": f.time_key, "pos": axes}
            for k in nkeys:
                # the corresponding mapping: standard keys for the track / lineage ids
                std = "track_id" if k == f.tracklet_key else ("lineage_id" if k == f.lineage_key else k)
                nmap[std] = k
            has_seg = tracks.segmentation is not None
            computed = {"pos", "area", "ellipse_axis_radii", "circularity", "perimeter"}
            load_n = {k: False for k in nkeys if k not in (f.tracklet_key, f.lineage_key) and not (not has_seg and k in computed)}
            # loaded (not recomputed) features: recompute flag False
            back = import_from_geff(
                d / "g" / "tracks", node_name_map=nmap,
                segmentation_path=(d / "g" / "segmentation") if has_seg else None,
                scale=None if tracks.scale is None else list(tracks.scale),
                node_features=load_n or None,
                edge_name_map={k: k for k in ekeys} if ekeys else None,
                edge_features={k: False for k in ekeys} or None,
            )
            cmp(before, _basic(back), "basic")
            lk = f.lineage_key
            if lk is not None:
                cmp(_partition(tracks, lk), _partition(back, back.features.lineage_key), "lineage-partition")
            cmp(_node_feats(tracks, list(load_n)), _node_feats(back, list(load_n)), "node-features")  # custom / regionprops keys keep their names
            cmp(_edge_feats(tracks, ekeys), _edge_feats(back, ekeys), "edge-features")
            if has_seg:
                a, b = np.asarray(tracks.segmentation), np.asarray(back.segmentation)
                if a.shape != b.shape or not np.array_equal(a, b):
                    out.append(vio("C14", "segmentation-differs", f"geff: arrays differ ({a.shape} vs {b.shape})", case, "roundtrip", "geff:segmentation"))
        elif fmt == "internal":
            save_tracks(tracks, d / "s")
            back = load_tracks(d / "s", seg_required=tracks.segmentation is not None, solution=True)
            cmp(canon.observe(tracks), canon.observe(back), "observable-state")
            if norm(tracks.scale) != norm(back.scale):
                out.append(vio("C14", "scale-differs", f"internal: scale {tracks.scale} -> {back.scale}", case, "roundtrip", "internal:scale"))
            ra, rb = canon.registry(tracks), canon.registry(back)
            ra.pop("annotators"), rb.pop("annotators")
            cmp(ra, rb, "registry")
    except Exception as e:  # noqa: BLE001
        import re
        stem = re.sub(r"[^A-Za-z ]+", " ", str(e).splitlines()[0] if str(e) else "").strip()[:40]
        out.append(vio("C14", "roundtrip-raises", f"{fmt}: {type(e).__name__}: {str(e)[:300]}", case, "roundtrip", f"{fmt}:{type(e).__name__}:{stem}"))
    return out


def _partition(tracks, key):
    by = {}
    for n in tracks.graph.nodes:
        by.setdefault(tracks.get_node_attr(n, key), set()).add(int(n))
    return sorted(sorted(s) for s in by.values())


# ===========================================================================
# C16 read-only operations

def _ops(tracks, w, d):
    """(name, thunk) for every read-only operation"""
    from funtracks.import_export import export_to_csv, export_to_geff
    from funtracks.import_export.internal_format import save_tracks
    g = tracks.graph
    nodes = sorted(int(n) for n in g.nodes)
    ops = []
    if nodes:
        ops.append(("export_to_csv", lambda: export_to_csv(tracks, d / "a.csv")))
        ops.append(("export_to_csv-subset", lambda: export_to_csv(tracks, d / "b.csv", node_ids={nodes[-1]})))
        ops.append(("export_to_csv-display-names", lambda: export_to_csv(tracks, d / "c.csv", use_display_names=True)))
        if tracks.segmentation is not None:
            ops.append(("export_to_csv-with-seg", lambda: export_to_csv(tracks, d / "e.csv", export_seg=True, seg_path=d / "e.tif")))
        ops.append(("export_to_geff", lambda: export_to_geff(tracks, d / "g1")))
        ops.append(("export_to_geff-subset", lambda: export_to_geff(tracks, d / "g2", node_ids={nodes[-1]})))
    ops.append(("save_tracks", lambda: save_tracks(tracks, d / "s")))

    def queries():
        if nodes:
            tracks.get_positions(nodes)
            tracks.get_positions(nodes, incl_time=True)
            tracks.get_times(nodes)
        for n in nodes:
            tracks.get_position(n), tracks.get_time(n), tracks.get_pixels(n)
            tracks.predecessors(n), tracks.successors(n)
            tracks.get_track_id(n), tracks.get_lineage_id(n)
        tids = sorted({tracks.get_track_id(n) for n in nodes}) + [tracks.get_next_track_id(), 0]
        for tid in tids:
            for t in range(-1, worlds.T + 1):
                tracks.get_track_neighbors(tid, t)
                tracks.has_track_id_at_time(tid, t)
        tracks.get_next_track_id(), tracks.get_next_lineage_id()
        tracks.nodes(), tracks.edges(), tracks.in_degree(), tracks.out_degree()
        if nodes:
            tracks.in_degree(np.array(nodes)), tracks.out_degree(np.array(nodes))
        tracks.get_available_features()
        tracks.features.dump_json()
        tracks.max_track_id, tracks.track_id_to_node
        for e in g.edges:
            tracks.get_edge_attr(e, "iou")
        tracks.get_nodes_attr(nodes, tracks.features.time_key)
    ops.append(("queries", queries))
    return ops


def readonly_state(task):
    wname, seed_j, hist_j = task
    w = worlds.world(wname)
    seed = worlds.seed_from_json(seed_j)
    history = [events.ev_from_json(e) for e in hist_j]
    case = {"world": wname, "seed": seed_j, "history": hist_j}
    out = []
    tracks = explore.rebuild(w, seed, history)
    n = 0
    d = _tmp()
    try:
        before = canon.snapshot(tracks)
        seg_id = id(tracks.segmentation)
        for name, thunk in _ops(tracks, w, d):
            n += 1
            try:
                try:
                    events.with_watchdog(thunk, 60)
                except events.Hang:  # believed only when it happens twice (read-only: safe to repeat)
                    shutil.rmtree(d, ignore_errors=True)
                    d.mkdir(parents=True, exist_ok=True)  # same paths, empty again
                    events.with_watchdog(thunk, 300)
            except events.Hang:
                out.append(vio("C16", "hang", f"{name} did not terminate", dict(case, op=name), "readonly", name))
                break
            except Exception as e:  # noqa: BLE001
                out.append(vio("C16", "raises", f"{name}: {type(e).__name__}: {str(e)[:200]}", dict(case, op=name), "readonly", f"{name}:{type(e).__name__}"))
            after = canon.snapshot(tracks)
            if after != before:  # values, not object identity: the property speaks of the state
                out.append(vio("C16", "state-changed", f"{name}: " + "; ".join(canon.diff(before, after)), dict(case, op=name), "readonly", name))
                tracks = explore.rebuild(w, seed, history)
                before = canon.snapshot(tracks)
                seg_id = id(tracks.segmentation)
    finally:
        shutil.rmtree(d, ignore_errors=True)
    return n, out


# ===========================================================================
# C15 subset export

def _ancestors_closure(edges, subset):
    parent = {v: u for u, v in edges}
    out = set()

    def up(n):
        if n in out:
            return
        out.add(n)
        if n in parent:
            up(parent[n])
    for n in subset:
        up(n)
    return out


def _wide_tracks(seed):
    """tracks whose frames are wider than one 64-pixel chunk of the GEFF exporter; every mask
    straddles the chunk boundary at x = 64"""
    from funtracks.data_model import SolutionTracks
    n = len(seed["nodes"])
    seg = np.zeros((worlds.T, n + 1, 70), dtype="int32")
    g = nx.DiGraph()
    for i, (k, (t, _r)) in enumerate(sorted(seed["nodes"].items())):
        g.add_node(k, time=t)
        seg[t, i, 62:67] = k
    g.add_edges_from(seed["edges"])
    return SolutionTracks(g, segmentation=seg, ndim=3)


def _many_tracks():
    """24 nodes (12 two-frame lineages) with wide sparse ids frame*10000+label and 2-pixel
    masks: enough kept ids for numpy's isin to take its sort-based path"""
    from funtracks.data_model import SolutionTracks
    seg = np.zeros((2, 12, 4), dtype="int32")
    g = nx.DiGraph()
    for k in range(12):
        a, b = 10000 + k + 1, 20000 + k + 1
        g.add_node(a, time=0)
        g.add_node(b, time=1)
        g.add_edge(a, b)
        seg[0, k, 0:2] = a
        seg[1, k, 1:3] = b
    return SolutionTracks(g, segmentation=seg, ndim=3)


def _long_tracks():
    """a chain that crosses the 64-frame boundary of the exporter's time chunks: 63 -> 64 -> 65"""
    from funtracks.data_model import SolutionTracks
    seg = np.zeros((66, 2, 3), dtype="int32")
    g = nx.DiGraph()
    for k, t in ((1, 62), (2, 63), (3, 64), (4, 65)):
        g.add_node(k, time=t)
        seg[t, 0, 0:2] = k
    g.add_edges_from([(1, 2), (2, 3), (3, 4)])
    return SolutionTracks(g, segmentation=seg, ndim=3)


def _bigtrack_tracks():
    """small node ids, track ids of 256 and more handed in with the graph"""
    from funtracks.data_model import SolutionTracks
    seg = np.zeros((3, 2, 4), dtype="int32")
    g = nx.DiGraph()
    spec = {1: (0, 300, 7), 2: (1, 301, 7), 3: (1, 302, 7), 4: (2, 301, 7)}
    for k, (t, tid, lid) in spec.items():
        g.add_node(k, time=t, track_id=tid, lineage_id=lid)
        seg[t, (k - 1) % 2, 0:2] = k
    g.add_edges_from([(1, 2), (1, 3), (2, 4)])
    return SolutionTracks(g, segmentation=seg, ndim=3)


def c15_session_case(case):
    """one tracks object: export a selection, edit the lineage, export the same selection again
    (and once more after undo); every export is judged against the graph as it is then"""
    from funtracks.import_export import export_to_csv, export_to_geff
    _k, wname, seed_j, subset, fmt, edits = case
    w = worlds.world(wname)
    tracks = explore.rebuild(w, worlds.seed_from_json(seed_j), [])
    subset = set(subset)
    d = _tmp()
    try:
        for step in range(len(edits) + 1):
            if step:
                o = events.apply_event(tracks, w, tuple(edits[step - 1]))
                if o.status not in ("ok",) or o.action is False:
                    return []
            edges = [(int(u), int(v)) for u, v in tracks.graph.edges]
            sel = {n for n in subset if tracks.graph.has_node(n)}
            if not sel:
                return []
            exp_nodes = _ancestors_closure(edges, sel)
            exp_edges = {(u, v) for u, v in edges if u in exp_nodes and v in exp_nodes}
            tag = f"{fmt}:after-{'-'.join(str(e[0]) for e in edits[:step]) or 'nothing'}"
            try:
                if fmt == "csv":
                    export_to_csv(tracks, d / f"t{step}.csv", node_ids=sel)
                    df = pd.read_csv(d / f"t{step}.csv")
                    got_nodes = set(int(x) for x in df["id"]) if len(df) else set()
                    got_edges = {(int(p), int(c)) for p, c in zip(df["parent_id"], df["id"]) if not pd.isna(p)} if len(df) else set()
                else:
                    import geff
                    export_to_geff(tracks, d / f"g{step}", node_ids=sel)
                    g, _meta = geff.read(d / f"g{step}" / "tracks", backend="networkx")
                    got_nodes = set(int(n) for n in g.nodes)
                    got_edges = {(int(u), int(v)) for u, v in g.edges}
            except Exception as e:  # noqa: BLE001
                return [vio("C15", "raises", f"{tag}: {type(e).__name__}: {e}", case, "subset-export-session", tag)]
            if got_nodes != exp_nodes:
                return [vio("C15", "nodes", f"{tag}: export #{step + 1} from the same object wrote {sorted(got_nodes)}, expected selection {sorted(sel)} + ancestors = {sorted(exp_nodes)} (edges now {sorted(edges)})", case, "subset-export-session", tag)]
            if got_edges != exp_edges:
                return [vio("C15", "edges", f"{tag}: export #{step + 1} wrote edges {sorted(got_edges)}, expected {sorted(exp_edges)}", case, "subset-export-session", tag)]
    finally:
        shutil.rmtree(d, ignore_errors=True)
    return []


def c15_case(case):
    from funtracks.import_export import export_to_csv, export_to_geff
    if case[0] == "session":
        return c15_session_case(case)
    kind, wname, seed_j, subset, fmt = case[:5]
    w = worlds.world(wname)
    seed = worlds.seed_from_json(seed_j)
    if len(case) > 5 and case[5] in ("desc", "zero", "big"):
        # desc: ids decreasing with time (a set of small ints iterates descendants before
        # ancestors); zero: zero-based ids (node 0 is a legal, falsy id); big: ids above 255
        n = len(seed["nodes"])
        m = {k: (n + 1 - k if case[5] == "desc" else (k - 1 if case[5] == "zero" else k + 300)) for k in seed["nodes"]}
        seed = {"nodes": {m[k]: v for k, v in seed["nodes"].items()}, "edges": [(m[u], m[v]) for u, v in seed["edges"]]}
        subset = [m[k] for k in subset]
    if len(case) > 5 and case[5] in ("long", "bigtracks"):
        tracks = _long_tracks() if case[5] == "long" else _bigtrack_tracks()
    elif len(case) > 5 and case[5] == "many":
        tracks = _many_tracks()
        allids = sorted(int(n) for n in tracks.graph.nodes)
        subset = [allids[i] for i in subset]
    elif len(case) > 5 and case[5] == "wide":
        tracks = _wide_tracks(seed)
    else:
        tracks = explore.rebuild(w, seed, [])
    subset = set(subset)
    seg0 = None if tracks.segmentation is None else tracks.segmentation.copy()
    edges = [(int(u), int(v)) for u, v in tracks.graph.edges]
    exp_nodes = _ancestors_closure(edges, subset)
    exp_edges = {(u, v) for u, v in edges if u in exp_nodes and v in exp_nodes}
    out = []
    d = _tmp()
    try:
        if fmt == "csv":
            kw = {}
            if w["seg"]:
                kw = dict(export_seg=True, seg_path=d / "s.tif")
            try:
                export_to_csv(tracks, d / "t.csv", node_ids=subset, **kw)
            except Exception as e:  # noqa: BLE001
                if not subset:
                    return []  # empty selection: nothing to write
                return [vio("C15", "raises", f"csv: {type(e).__name__}: {e}", case, "subset-export", "csv")]
            df = pd.read_csv(d / "t.csv")
            got_nodes = set(int(x) for x in df["id"]) if len(df) else set()
            got_edges = {(int(p), int(c)) for p, c in zip(df["parent_id"], df["id"]) if not pd.isna(p)} if len(df) else set()
            if got_nodes != exp_nodes:
                out.append(vio("C15", "nodes", f"csv: wrote {sorted(got_nodes)}, expected selection {sorted(subset)} + ancestors = {sorted(exp_nodes)}", case, "subset-export", "csv"))
            elif got_edges != exp_edges:
                out.append(vio("C15", "edges", f"csv: wrote edges {sorted(got_edges)}, expected {sorted(exp_edges)}", case, "subset-export", "csv"))
            if w["seg"] and not out:
                import tifffile
                arr = tifffile.imread(d / "s.tif")
                exp = np.zeros_like(seg0)
                for n in exp_nodes:
                    exp[seg0 == n] = tracks.get_track_id(n)
                if arr.shape != exp.shape or not np.array_equal(arr.astype(np.int64), exp.astype(np.int64)):
                    out.append(vio("C15", "segmentation", f"csv tif: masks differ from the masks of {sorted(exp_nodes)} labelled by track", case, "subset-export", "csv"))
        else:
            import geff
            import zarr
            try:
                export_to_geff(tracks, d / "g", node_ids=subset)
            except Exception as e:  # noqa: BLE001
                if not subset:
                    return []
                return [vio("C15", "raises", f"geff: {type(e).__name__}: {e}", case, "subset-export", "geff")]
            g, _meta = geff.read(d / "g" / "tracks", backend="networkx")
            got_nodes = set(int(n) for n in g.nodes)
            got_edges = {(int(u), int(v)) for u, v in g.edges}
            if got_nodes != exp_nodes:
                out.append(vio("C15", "nodes", f"geff: wrote {sorted(got_nodes)}, expected {sorted(exp_nodes)}", case, "subset-export", "geff"))
            elif got_edges != exp_edges:
                out.append(vio("C15", "edges", f"geff: wrote edges {sorted(got_edges)}, expected {sorted(exp_edges)}", case, "subset-export", "geff"))
            if w["seg"]:
                arr = np.asarray(zarr.open(str(d / "g" / "segmentation"), mode="r")[:])
                exp = np.where(np.isin(seg0, sorted(exp_nodes)), seg0, 0)
                if arr.shape != exp.shape or not np.array_equal(arr, exp):
                    out.append(vio("C15", "segmentation", f"geff: array differs from the source masked to {sorted(exp_nodes)}", case, "subset-export", "geff"))
                elif subset:
                    # a second selection exported from the same tracks object (all nodes) must
                    # still contain every mask
                    allnodes = set(int(n) for n in tracks.graph.nodes)
                    export_to_geff(tracks, d / "g2", node_ids=allnodes)
                    arr2 = np.asarray(zarr.open(str(d / "g2" / "segmentation"), mode="r")[:])
                    exp2 = np.where(np.isin(seg0, sorted(allnodes)), seg0, 0)
                    if not np.array_equal(arr2, exp2):
                        out.append(vio("C15", "segmentation-second-export", f"geff: after exporting {sorted(subset)}, an export of all nodes misses masks", case, "subset-export", "geff"))
    finally:
        shutil.rmtree(d, ignore_errors=True)
    return out


def c15_cases(tier):
    q = tier == "quick"
    n = 4 if q else 5
    # many kept nodes with wide sparse ids: all leaves but k of them (indices into the sorted ids)
    leaves = list(range(12, 24))
    one = worlds.seed_to_json({"nodes": {1: (0, (0, 1, 0, 1))}, "edges": []})
    for sub in ((3,), (4,), (2, 4), (1,)):
        yield ("subset", "seg-2d-core", one, sub, "geff", "long")
        yield ("subset", "seg-2d-core", one, sub, "csv", "long")
    for sub in ((4,), (3,), (2, 3), (1,)):
        yield ("subset", "seg-2d-core", one, sub, "csv", "bigtracks")
        yield ("subset", "seg-2d-core", one, sub, "geff", "bigtracks")
    for drop in ([], [0], [0, 5], [3, 7, 11], [0, 1, 2, 3, 4, 5]):
        sel = tuple(i for i in leaves if (i - 12) not in drop)
        yield ("subset", "seg-2d-core", one, sel, "geff", "many")
        yield ("subset", "seg-2d-core", one, sel, "csv", "many")
    # sessions on one object: export, edit the lineage above / below the selection, export again,
    # undo, export again (all forests <= 3 / 4 nodes x all one- and two-node selections x every
    # edge deletion and every forward edge addition)
    for seed in worlds.forests(3 if q else 4, 3, 1):
        sj = worlds.seed_to_json(seed)
        ids = sorted(seed["nodes"])
        tm = {k: v[0] for k, v in seed["nodes"].items()}
        edits = [("del_edge", u, v) for u, v in seed["edges"]]
        edits += [("add_edge", u, v, False) for u in ids for v in ids if tm[u] < tm[v] and (u, v) not in seed["edges"]]
        for r in (1, 2):
            for sub in itertools.combinations(ids, r):
                for e in edits:
                    yield ("session", "noseg-2d-given", sj, sub, "csv", [list(e), ["undo"]])
                    if r == 1 and len(ids) <= 2:
                        yield ("session", "noseg-2d-given", sj, sub, "geff", [list(e), ["undo"]])
    for wname in ("noseg-2d-given", "seg-2d-core"):
        for seed in worlds.forests(n, 3 if q else 4, 1):
            sj = worlds.seed_to_json(seed)
            ids = sorted(seed["nodes"])
            if not q and len(ids) == 5 and wname != "noseg-2d-given":
                continue
            for r in range(0, len(ids) + 1):
                for sub in itertools.combinations(ids, r):
                    yield ("subset", wname, sj, sub, "csv")
                    if r >= 2:
                        yield ("subset", wname, sj, sub, "csv", "desc")
                    if r >= 1 and wname == "noseg-2d-given":
                        yield ("subset", wname, sj, sub, "csv", "zero")
                    if r == 1:
                        yield ("subset", wname, sj, sub, "csv", "big")
                    if wname == "seg-2d-core" and r == 1 and len(ids) <= 3:
                        yield ("subset", wname, sj, sub, "geff", "wide")
                        yield ("subset", wname, sj, sub, "geff", "big")
                    # GEFF export costs ~0.2 s: quick tier enumerates it for all forests <= 3 nodes
                    # (all subsets) and for 4-node forests with segmentation-free tracks for
                    # selections of one node; thorough for everything
                    if q and len(ids) == 4 and not (wname == "noseg-2d-given" and r == 1):
                        continue
                    yield ("subset", wname, sj, sub, "geff")
                    if r == 2 and wname == "noseg-2d-given":
                        yield ("subset", wname, sj, sub, "geff", "desc")


# ===========================================================================
# C12 import

ID_SCHEMES = ("seq", "gaps", "zero", "desc", "str", "strdesc", "float", "huge")
INT_SCHEMES = ("seq", "gaps", "zero", "desc", "huge")


def _ids(scheme, n):
    if scheme == "seq":
        return list(range(1, n + 1))
    if scheme == "gaps":
        return [3 * i + 2 for i in range(n)]
    if scheme == "zero":
        return list(range(0, n))
    if scheme == "desc":
        return list(range(n + 3, 3, -1))
    if scheme == "str":
        return [f"c{i}" for i in range(n)]
    if scheme == "strdesc":
        # rows are not in the sorted order of their (string) ids
        return [f"c{n - 1 - i}" for i in range(n)]
    if scheme == "float":
        return [float(i + 1) + 0.5 for i in range(n)]
    if scheme == "huge":
        # consecutive integers above 2**53: not representable as float64
        return [2**53 + 1 + i for i in range(n)]
    raise ValueError(scheme)


def c12_table(seed, scheme, parent_enc, ndim, naming, extras, pos_order, malformed=None, row=0):
    """build (df, node_name_map, expected) for a forest"""
    nodes = sorted(seed["nodes"])
    ids = dict(zip(nodes, _ids(scheme, len(nodes))))
    parent = {v: u for u, v in seed["edges"]}
    axes = ["y", "x"] if ndim == 3 else ["z", "y", "x"]
    rows = []
    for i, n in enumerate(nodes):
        t = seed["nodes"][n][0]
        r = {"time": t, "id": ids[n]}
        for k, a in enumerate(axes):
            r[a] = float(10 * (k + 1) + i) + 0.25
        if ndim == 4:
            r["z"] = 3 + i  # an integer plane index next to float y / x (mixed column dtypes)
        p = parent.get(n)
        if p is None:
            r["parent_id"] = -1 if parent_enc.startswith("minus1") else None
        else:
            r["parent_id"] = ids[p]
        if extras:
            # "sparse": the custom value is missing (NaN) on every second row
            r["score"] = None if (extras == "sparse" and i % 2 == 1) else 0.5 * i
            r["vec"] = f"[{i}, {i + 1}]"
        if extras == "multi":
            # an integer property spread over two columns (e.g. a timestamp in ns and a plate index)
            r["ns0"] = 2**53 + 1 + 2 * i
            r["ns1"] = i
        if extras == "area":
            # a measurement column loaded through the features argument ({"Area": "area"}), not
            # through the name map
            r = {k: v for k, v in r.items() if k not in ("score", "vec")}
            r["area"] = 7.0 + i
        rows.append(r)
    cols = ["time"] + axes + ["id", "parent_id"] + (["score", "vec"] if extras and extras != "area" else []) + (["ns0", "ns1"] if extras == "multi" else []) + (["area"] if extras == "area" else [])
    if pos_order == "rev":
        cols = list(reversed(cols))  # column order of the table must not matter either
    df = pd.DataFrame(rows, columns=cols)
    if parent_enc == "nan" and scheme in ("seq", "gaps", "zero", "desc"):
        df["parent_id"] = df["parent_id"].astype("float")  # NaN for roots, like pd.read_csv does
    if parent_enc == "nan" and scheme == "huge":
        # float64 cannot hold those ids: a nullable integer column (pd.read_csv(dtype="Int64"))
        df["parent_id"] = pd.array([pd.NA if r["parent_id"] is None else r["parent_id"] for r in rows], dtype="Int64")
    if parent_enc == "minus1-floattime":
        df["time"] = df["time"].astype("float")  # a time column that was parsed as float (1.0, 2.0)
    if parent_enc == "minus1-reindexed":
        # a table that was sorted / filtered before: rows reversed, index labels not 0..n-1
        df = df.iloc[::-1]
        df.index = [10 + 3 * k for k in range(len(df))][::-1]
    rename = {}
    if naming == "collide":
        rename = {"time": "t"}
        df = df.rename(columns=rename)
        df["time"] = [100.5 + i for i in range(len(df))]  # an unrelated column spelled like a standard key
        rename = {"time": "t"}
        R0 = lambda c: rename.get(c, c)  # noqa: E731
        order = list(axes) if pos_order == "std" else list(reversed(axes))
        nmap = {"time": "t", "pos": [R0(a) for a in order], "id": "id", "parent_id": "parent_id", "stamp": "time"}
        if extras:
            nmap["score"] = "score"
            nmap["vec"] = "vec"
        if extras == "multi":
            nmap["stamp2"] = ["ns0", "ns1"]
        for i, r in enumerate(rows):
            r["stamp"] = 100.5 + i
        expected = {"rows": rows, "ids": ids, "parent": parent, "order": order, "axes": axes}
        return df, nmap, expected
    if naming == "renamed":
        rename = {"time": "Frame", "id": "Cell", "parent_id": "Mother", "y": "Row", "x": "Col", "z": "Plane", "score": "Quality", "vec": "Vector"}
    elif naming == "id-renamed":
        rename = {"id": "Cell"}
    df = df.rename(columns=rename)
    R = lambda c: rename.get(c, c)  # noqa: E731
    order = list(axes) if pos_order == "std" else list(reversed(axes))
    nmap = {"time": R("time"), "pos": [R(a) for a in order], "id": R("id"), "parent_id": R("parent_id")}
    if extras and extras != "area":
        nmap["score"] = R("score")
        nmap["vec"] = R("vec")
    if extras == "multi":
        nmap["stamp2"] = ["ns0", "ns1"]
    expected = {"rows": rows, "ids": ids, "parent": parent, "order": order, "axes": axes}
    if malformed == "dup-id" and len(nodes) >= 2:
        df.loc[row, R("id")] = df.loc[(row + 1) % len(nodes), R("id")]
    elif malformed == "unknown-parent":
        df[R("parent_id")] = df[R("parent_id")].astype(object)
        df.loc[row, R("parent_id")] = "zz" if scheme in ("str", "strdesc") else (777.5 if scheme == "float" else 777)
    elif malformed == "self-link":
        df[R("parent_id")] = df[R("parent_id")].astype(object)
        df.loc[row, R("parent_id")] = df.loc[row, R("id")]
    elif malformed == "missing-time-column":
        df = df.drop(columns=[R("time")])
    elif malformed == "missing-id-column":
        df = df.drop(columns=[R("id")])
    elif malformed == "missing-parent-column":
        df = df.drop(columns=[R("parent_id")])
    elif malformed == "missing-time-mapping":
        del nmap["time"]
    elif malformed == "missing-pos-mapping":
        del nmap["pos"]
    return df, nmap, expected


def c12_pair_case(case):
    """two imports in a row that share the caller's objects (the same name-map dict, and for a
    repeated table the same DataFrame): each one must reproduce its own source"""
    from funtracks.import_export.csv._import import tracks_from_df
    _k, case_a, case_b = case
    shared = None
    tables = {}
    out = []
    for which, sub in (("first", case_a), ("second", case_b)):
        _kind, seed_j, scheme, parent_enc, ndim, naming, extras, pos_order, _mal, _row = sub
        key = repr(sub)
        if key in tables:
            df, nmap, exp = tables[key]
        else:
            df, nmap, exp = c12_table(worlds.seed_from_json(seed_j), scheme, parent_enc, ndim, naming, extras, pos_order)
            nmap = {k: (list(v) if isinstance(v, list) else v) for k, v in nmap.items()}
            tables[key] = (df, nmap, exp)
        if shared is None:
            # the caller's one dict, handed to both imports; `nmap` stays a pristine copy
            shared = {k: (list(v) if isinstance(v, list) else v) for k, v in nmap.items()}
            shared0 = nmap
        elif nmap != shared0:
            raise RuntimeError("pair case with different name maps")
        cls = f"pair:{which}:{scheme}:{naming}:{case_a[6]}>{case_b[6]}"
        feats = {"Area": "area"} if extras == "area" else None
        try:
            tr = tracks_from_df(df, features=feats, node_name_map=shared)
        except ValueError as e:
            return out + [vio("C12", "wellformed-rejected", f"{which} of two imports sharing the caller's name map: ValueError: {str(e)[:200]}", case, "tracks_from_df-pair", cls)]
        except Exception as e:  # noqa: BLE001
            return out + [vio("C12", "wellformed-raises", f"{which} of two imports: {type(e).__name__}: {str(e)[:200]}", case, "tracks_from_df-pair", cls + ":" + type(e).__name__)]
        out += _c12_compare(tr, exp, scheme, case, cls, "tracks_from_df-pair")
        if out:
            return out
    return out


def c12_case(case):
    from funtracks.import_export.csv._import import tracks_from_df
    if case[0] == "df2":
        return c12_pair_case(case)
    kind, seed_j, scheme, parent_enc, ndim, naming, extras, pos_order, malformed, row = case
    seed = worlds.seed_from_json(seed_j)
    df, nmap, exp = c12_table(seed, scheme, parent_enc, ndim, naming, extras, pos_order, malformed, row)
    cls = f"{scheme}:{naming}" + (f":{malformed}" if malformed else "")
    df0 = df.copy(deep=True)
    try:
        tr = tracks_from_df(df, features={"Area": "area"} if extras == "area" else None, node_name_map=dict(nmap))
    except ValueError as e:
        if malformed:
            return []
        return [vio("C12", "wellformed-rejected", f"ValueError: {str(e)[:200]}", case, "tracks_from_df", cls)]
    except Exception as e:  # noqa: BLE001
        if malformed:
            return [vio("C12", "malformed-wrong-exception", f"{malformed}: {type(e).__name__}: {str(e)[:200]}", case, "tracks_from_df", cls + ":" + type(e).__name__)]
        return [vio("C12", "wellformed-raises", f"{type(e).__name__}: {str(e)[:200]}", case, "tracks_from_df", cls + ":" + type(e).__name__)]
    if malformed:
        return [vio("C12", "malformed-accepted", f"{malformed} at row {row}: imported {tr.graph.number_of_nodes()} nodes, {tr.graph.number_of_edges()} edges without error; table:\n{df0.to_string()}", case, "tracks_from_df", cls)]
    return _c12_compare(tr, exp, scheme, case, cls, "tracks_from_df")


def _c12_compare(tr, exp, scheme, case, cls, check):
    out = []
    g = tr.graph
    rows, ids, parent, order = exp["rows"], exp["ids"], exp["parent"], exp["order"]
    integer = scheme in INT_SCHEMES
    # node for each row: by id (integer ids) or by unique position (renumbered ids)
    row_node = {}
    if integer:
        if sorted(int(n) for n in g.nodes) != sorted(ids.values()):
            return [vio("C12", "nodes", f"graph nodes {sorted(g.nodes)} != source ids {sorted(ids.values())}", case, check, cls)]
        for n, i in ids.items():
            row_node[n] = i
    else:
        if g.number_of_nodes() != len(rows):
            return [vio("C12", "nodes", f"{g.number_of_nodes()} nodes for {len(rows)} rows", case, check, cls)]
        by_pos = {norm(tr.get_position(n)): n for n in g.nodes}
        for (n, _i), r in zip(sorted(ids.items()), rows):
            p = norm([r[a] for a in order])
            if p not in by_pos:
                return [vio("C12", "position", f"no node with position {p}; positions {sorted(by_pos)}", case, check, cls)]
            row_node[n] = by_pos[p]
        if len(set(row_node.values())) != len(rows):
            return [vio("C12", "nodes", "renumbering is not one-to-one", case, check, cls)]
    exp_edges = {(row_node[p], row_node[c]) for c, p in parent.items()}
    got_edges = {(u, v) for u, v in g.edges}
    if got_edges != exp_edges:
        out.append(vio("C12", "edges", f"edges {sorted(got_edges)} != parent links {sorted(exp_edges)}", case, check, cls))
    for (n, _i), r in zip(sorted(ids.items()), rows):
        node = row_node[n]
        if int(tr.get_time(node)) != r["time"]:
            out.append(vio("C12", "time", f"node {node}: time {tr.get_time(node)} != {r['time']}", case, check, cls))
            break
        if norm(tr.get_position(node)) != norm([r[a] for a in order]):
            out.append(vio("C12", "position", f"node {node}: position {tr.get_position(node)} != {[r[a] for a in order]} (mapped order {order})", case, check, cls))
            break
        if "stamp" in r and norm(tr.get_node_attr(node, "stamp")) != norm(r["stamp"]):
            out.append(vio("C12", "custom-property", f"node {node}: stamp {tr.get_node_attr(node, 'stamp')} != source column 'time' value {r['stamp']}", case, check, cls))
            break
        if "area" in r and norm(tr.get_node_attr(node, "area")) != norm(r["area"]):
            out.append(vio("C12", "custom-property", f"node {node}: area {tr.get_node_attr(node, 'area')} != source column value {r['area']} (features={{'Area': 'area'}})", case, check, cls))
            break
        if "score" in r:
            got = tr.get_node_attr(node, "score")
            if r["score"] is None:
                if not (got is None or (isinstance(got, float) and got != got)):
                    out.append(vio("C12", "custom-property", f"node {node}: score {got!r} for a missing source cell", case, check, cls))
                    break
            elif norm(got) != norm(r["score"]):
                out.append(vio("C12", "custom-property", f"node {node}: score {tr.get_node_attr(node, 'score')} != {r['score']}", case, check, cls))
                break
            if "ns0" in r:
                got2 = tr.get_node_attr(node, "stamp2")
                try:
                    same = [int(x) for x in got2] == [r["ns0"], r["ns1"]]
                except (TypeError, ValueError):
                    same = False
                if not same:
                    out.append(vio("C12", "custom-property", f"node {node}: stamp2 {got2!r} != columns ns0, ns1 = {[r['ns0'], r['ns1']]}", case, check, cls))
                    break
            i = rows.index(r)
            # the source cell is the string "[i, j]"; the importer may keep it or parse it
            if norm(tr.get_node_attr(node, "vec")) not in (norm([i, i + 1]), norm(f"[{i}, {i + 1}]")):
                out.append(vio("C12", "custom-property", f"node {node}: vec {tr.get_node_attr(node, 'vec')} != {[i, i + 1]}", case, check, cls))
                break
    return out


def c12_cases(tier):
    q = tier == "quick"
    forests = list(worlds.forests(3 if q else 4, 3, 1))
    for seed in forests:
        sj = worlds.seed_to_json(seed)
        for scheme in ID_SCHEMES:
            for penc in ("minus1", "nan", "minus1-reindexed", "minus1-floattime"):
                for ndim in (3, 4):
                    for naming in ("std", "renamed", "id-renamed", "collide"):
                        if penc in ("minus1-reindexed", "minus1-floattime") and (ndim == 4 or naming in ("id-renamed", "collide")):
                            continue
                        if penc == "minus1-floattime" and naming != "std":
                            continue
                        if naming == "collide" and (penc != "minus1" or ndim == 4):
                            continue
                        for extras in (False, True, "sparse"):
                            for order in ("std", "rev"):
                                if q and ndim == 4 and (extras or order == "rev") and naming != "std":
                                    continue
                                if extras == "sparse" and (penc == "nan" or (q and naming == "id-renamed")):
                                    continue
                                yield ("df", sj, scheme, penc, ndim, naming, extras, order, None, 0)
                        if scheme in ("seq", "huge", "str") and ndim == 3 and naming in ("std", "renamed") and penc == "minus1":
                            yield ("df", sj, scheme, penc, ndim, naming, "multi", "std", None, 0)
    # a measurement column loaded through the features argument
    for seed in forests:
        sj = worlds.seed_to_json(seed)
        for scheme in ("seq", "str", "zero"):
            for naming in ("std", "renamed"):
                yield ("df", sj, scheme, "minus1", 3, naming, "area", "std", None, 0)
    # sessions: every ordered pair of imports (tables of <= 2 / <= 3 rows) that can share one name map
    tiny = list(worlds.forests(2 if q else 3, 3, 1))
    for sa in tiny:
        for sb in tiny:
            for scheme in ("seq", "str"):
                for naming in ("std", "renamed"):
                    for ea, eb in ((False, False), (False, "area"), ("area", False), ("area", "area"), (True, True), ("sparse", True), (True, "sparse")):
                        ca = ("df", worlds.seed_to_json(sa), scheme, "minus1", 3, naming, ea, "std", None, 0)
                        cb = ("df", worlds.seed_to_json(sb), scheme, "minus1", 3, naming, eb, "std", None, 0)
                        yield ("df2", ca, cb)
    small = list(worlds.forests(3, 3, 1))
    for seed in small:
        sj = worlds.seed_to_json(seed)
        n = len(seed["nodes"])
        for scheme in ("seq", "gaps", "str", "float") if not q else ("seq", "str"):
            for naming in ("std", "renamed"):
                for mal in ("dup-id", "unknown-parent", "self-link"):
                    for row in range(n):
                        if mal == "dup-id" and n < 2:
                            continue
                        yield ("df", sj, scheme, "minus1", 3, naming, False, "std", mal, row)
                for mal in ("missing-time-column", "missing-id-column", "missing-parent-column", "missing-time-mapping", "missing-pos-mapping"):
                    yield ("df", sj, scheme, "minus1", 3, naming, False, "std", mal, 0)


def c12_geff_case(case):
    """write a GEFF store with geff.write and read it with import_from_geff"""
    import geff
    from funtracks.import_export import import_from_geff
    kind, seed_j, scheme, ndim, naming, pos_mode, malformed = case
    seed = worlds.seed_from_json(seed_j)
    nodes = sorted(seed["nodes"])
    ids = dict(zip(nodes, _ids(scheme, len(nodes))))
    axes = ["y", "x"] if ndim == 3 else ["z", "y", "x"]
    R = (lambda c: {"time": "Frame", "y": "Row", "x": "Col", "z": "Plane", "score": "Quality", "pos": "Where"}.get(c, c)) if naming == "renamed" else (
        (lambda c: {"time": "t"}.get(c, c)) if naming == "collide" else (lambda c: c))
    g = nx.DiGraph()
    rows = []
    for i, n in enumerate(nodes):
        r = {"time": seed["nodes"][n][0], "id": ids[n], "score": 0.5 * i}
        attrs = {R("time"): r["time"], R("score"): r["score"]}
        for k, a in enumerate(axes):
            r[a] = float(10 * (k + 1) + i) + 0.25
        if ndim == 4 and pos_mode != "stacked":
            r["z"] = 3 + i  # integer plane index, float y / x
        if pos_mode == "stacked":
            attrs[R("pos")] = np.array([r[a] for a in axes])
        else:
            for a in axes:
                attrs[R(a)] = r[a]
        if naming == "collide":
            attrs["time"] = 100.5 + i  # an unrelated property spelled like a standard key
        g.add_node(ids[n], **attrs)
        rows.append(r)
    for u, v in seed["edges"]:
        g.add_edge(ids[u], ids[v], w=float(u * 10 + v))
    order = list(axes) if pos_mode != "rev" else list(reversed(axes))
    nmap = {"time": R("time"), "score": R("score")}
    nmap["pos"] = R("pos") if pos_mode == "stacked" else [R(a) for a in order]
    if naming == "collide":
        nmap["stamp"] = "time"
    cls = f"geff:{scheme}:{naming}:{pos_mode}"
    d = _tmp()
    try:
        geff.write(g, d / "s.zarr", axis_names=None)
        if malformed:
            import zarr
            z = zarr.open(str(d / "s.zarr"), mode="r+")
            if malformed == "dup-id":
                a = z["nodes/ids"][:]
                a[-1] = a[0]
                z["nodes/ids"][:] = a
            elif malformed == "unknown-parent":
                a = z["edges/ids"][:]
                a[0, 0] = 777
                z["edges/ids"][:] = a
            elif malformed == "self-link":
                a = z["edges/ids"][:]
                a[0, 0] = a[0, 1]
                z["edges/ids"][:] = a
            try:
                tr = import_from_geff(d / "s.zarr", node_name_map=nmap)
            except ValueError:
                return []
            except Exception as e:  # noqa: BLE001
                return [vio("C12", "malformed-wrong-exception", f"{malformed}: {type(e).__name__}: {str(e)[:200]}", case, "import_from_geff", cls + ":" + malformed)]
            return [vio("C12", "malformed-accepted", f"{malformed}: imported {tr.graph.number_of_nodes()} nodes / {tr.graph.number_of_edges()} edges without error", case, "import_from_geff", cls + ":" + malformed)]
        try:
            has_edges = g.number_of_edges() > 0  # a store without edges has no edge properties
            tr = import_from_geff(d / "s.zarr", node_name_map=nmap, node_features={"score": False},
                                  edge_name_map={"w": "w"} if has_edges else None,
                                  edge_features={"w": False} if has_edges else None)
        except Exception as e:  # noqa: BLE001
            return [vio("C12", "wellformed-raises", f"{type(e).__name__}: {str(e)[:300]}", case, "import_from_geff", cls + ":" + type(e).__name__)]
        exp = {"rows": [dict(r) for r in rows], "ids": ids, "parent": {v: u for u, v in seed["edges"]}, "order": order, "axes": axes}
        for i, r in enumerate(exp["rows"]):
            r.pop("score")
            if naming == "collide":
                r["stamp"] = 100.5 + i
        out = _c12_compare(tr, exp, "seq", case, cls, "import_from_geff")
        for i, n in enumerate(nodes):
            if norm(tr.get_node_attr(ids[n], "score")) != norm(0.5 * i):
                out.append(vio("C12", "custom-property", f"node {ids[n]}: score {tr.get_node_attr(ids[n], 'score')} != {0.5 * i}", case, "import_from_geff", cls))
                break
        for u, v in seed["edges"]:
            if norm(tr.get_edge_attr((ids[u], ids[v]), "w")) != norm(float(u * 10 + v)):
                out.append(vio("C12", "edge-property", f"edge {(ids[u], ids[v])}: w {tr.get_edge_attr((ids[u], ids[v]), 'w')}", case, "import_from_geff", cls))
                break
        return out
    finally:
        shutil.rmtree(d, ignore_errors=True)


def c12_geff_cases(tier):
    q = tier == "quick"
    forests = [s for s in worlds.forests(3 if q else 4, 3, 1)]
    for i, seed in enumerate(forests):
        sj = worlds.seed_to_json(seed)
        for scheme in ("seq", "gaps", "zero", "desc"):
            for ndim in (3, 4):
                for naming in ("std", "renamed", "collide"):
                    for pos_mode in ("std", "rev", "stacked"):
                        if naming == "collide" and (pos_mode != "std" or scheme != "gaps" or ndim == 4):
                            continue
                        if q and (ndim == 4) != (i % 2 == 0):
                            continue
                        if q and scheme in ("zero", "desc") and naming == "renamed":
                            continue
                        yield ("geff", sj, scheme, ndim, naming, pos_mode, None)
    for seed in worlds.forests(3, 3, 2):
        if not seed["edges"]:
            continue
        sj = worlds.seed_to_json(seed)
        for mal in ("dup-id", "unknown-parent", "self-link"):
            for scheme in ("seq", "gaps"):
                yield ("geff", sj, scheme, 3, "std", "std", mal)
