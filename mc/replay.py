"""python -m mc.replay <artefact.json> [--as-test]: re-execute one counterexample on the
real code without any explorer and print what happens.  Exit 1 if it still fails.
With --as-test a stand-alone pytest file replaying it through the public API is printed."""
from __future__ import annotations

import json
import sys

from . import bind  # noqa: F401


def main(argv=None):
    argv = argv if argv is not None else sys.argv[1:]
    if not argv:
        print(__doc__)
        return 2
    rec = json.load(open(argv[0]))
    if "--as-test" in argv:
        from . import astest
        sys.stdout.write(astest.emit(rec, argv[0]))
        return 0
    eng = rec.get("engine", "E1")
    print(f"replaying {argv[0]}\n property={rec['property']} clause={rec.get('clause')} engine={eng}")
    print(f" world={rec.get('world')} seed={rec.get('seed')}\n history={rec.get('history')}\n event={rec.get('event')}")
    print(f" recorded detail: {rec.get('detail')}")
    if eng == "E1":
        from . import explore, props
        c = rec["cfg"]
        cfg = explore.Cfg(props=c["props"], depth=c.get("depth", 1), kinds=c.get("kinds"),
                          undo_probe=c.get("undo_probe", False),
                          **{k: v for k, v in c.items() if k in ("c06_queries", "c08_differential", "c09_bulk")})
        sigs = props.e1_replay(cfg, rec)
    else:
        from . import props
        sigs = props.generic_replay(rec)
    print(" signatures observed now:")
    for s in sigs:
        print("   ", s)
    if rec["signature"] in sigs:
        print(f"STILL FAILS: {rec['signature']}")
        return 1
    print("does not reproduce on this tree")
    return 0


if __name__ == "__main__":
    sys.exit(main())
