"""Worlds = (seed graph, configuration) -> fresh real SolutionTracks objects."""
from __future__ import annotations

import itertools
import os

import networkx as nx
import numpy as np

from . import bind  # noqa: F401  (must be first: binds funtracks to the tree)
from funtracks.data_model import SolutionTracks  # noqa: E402
from funtracks.features import (  # noqa: E402
    Area,
    FeatureDict,
    IoU,
    LineageID,
    Position,
    Time,
    TrackletID,
)

T = 4  # frames
H, W, D = 4, 6, 2  # frame height, width, depth (3D worlds)

# seed = {"nodes": {id: (t, (y0, y1, x0, x1))}, "edges": [(u, v)]}
SEEDS = {
    "empty": {"nodes": {}, "edges": []},
    "chain": {
        "nodes": {1: (0, (0, 2, 0, 2)), 2: (1, (0, 2, 1, 3)), 3: (2, (1, 3, 1, 3))},
        "edges": [(1, 2), (2, 3)],
    },
    "skip": {
        "nodes": {1: (0, (0, 2, 0, 2)), 2: (2, (0, 2, 1, 3)), 3: (3, (0, 3, 1, 3))},
        "edges": [(1, 2), (2, 3)],
    },
    "div": {
        "nodes": {
            1: (0, (1, 3, 2, 4)),
            2: (1, (0, 2, 1, 3)),
            3: (1, (2, 4, 3, 5)),
            4: (2, (0, 2, 0, 2)),
        },
        "edges": [(1, 2), (1, 3), (2, 4)],
    },
    "two": {
        "nodes": {
            1: (0, (0, 2, 0, 2)),
            2: (1, (0, 2, 0, 3)),
            3: (0, (2, 4, 3, 6)),
            4: (1, (2, 4, 4, 6)),
            5: (2, (0, 2, 4, 6)),
        },
        "edges": [(1, 2), (3, 4)],
    },
    "desc": {
        "nodes": {
            7: (0, (1, 3, 2, 4)),
            5: (1, (1, 3, 2, 5)),
            3: (2, (0, 2, 1, 3)),
            2: (2, (2, 4, 3, 5)),
        },
        "edges": [(7, 5), (5, 3), (5, 2)],
    },
    # node id 0 (falsy) and ids unordered in time; noseg worlds only (0 is background in arrays)
    "zero": {
        "nodes": {0: (0, (0, 2, 0, 2)), 4: (1, (0, 2, 1, 3)), 2: (2, (1, 3, 1, 3)), 3: (2, (2, 4, 3, 5))},
        "edges": [(0, 4), (4, 2), (4, 3)],
    },
    # node ids around the 8-bit and above the 16-bit boundary
    "bigdiv": {
        "nodes": {254: (0, (1, 3, 2, 4)), 255: (1, (0, 2, 1, 3)), 256: (1, (2, 4, 3, 5)), 70000: (2, (0, 2, 0, 2))},
        "edges": [(254, 255), (254, 256), (255, 70000)],
    },
    # node ids whose products wrap in a narrow label dtype (16 * 32 = 0 mod 256); for uint8 worlds
    "u8ids": {
        "nodes": {16: (0, (0, 2, 0, 3)), 32: (1, (0, 2, 1, 4)), 48: (2, (1, 3, 1, 3)), 64: (1, (2, 4, 3, 6))},
        "edges": [(16, 32), (32, 48), (16, 64)],
    },
    # node ids whose pair keys / products wrap in 32 bits: (65537, 7) and (1, 7) coincide when a
    # pair is packed as a * 2**16 + b modulo 2**32; 65536 * 131072 = 0 modulo 2**32
    "u32ids": {
        "nodes": {65537: (0, (0, 2, 0, 3)), 1: (0, (2, 4, 0, 3)), 300: (0, (0, 2, 3, 6)),
                  7: (1, (1, 3, 0, 3)), 65535: (1, (0, 2, 4, 6)),
                  65536: (2, (1, 3, 1, 4)), 131072: (3, (1, 3, 2, 5))},
        "edges": [(65537, 7), (300, 65535), (7, 65536), (65536, 131072)],
    },
    # two divisions side by side (a refusal in one lineage while a stroke overwrites
    # both daughters of the other)
    "twodiv": {
        "nodes": {
            1: (0, (0, 2, 0, 2)),
            2: (1, (0, 1, 0, 2)),
            3: (1, (1, 3, 1, 3)),
            4: (0, (2, 4, 3, 5)),
            5: (1, (0, 2, 3, 5)),
            6: (1, (3, 4, 3, 6)),
        },
        "edges": [(1, 2), (1, 3), (4, 5), (4, 6)],
    },
    # both daughters of a division divide again (a walk that keeps one pending daughter per
    # division loses a subtree); 8 nodes, 4 frames
    "nested": {
        "nodes": {
            1: (0, (1, 3, 2, 4)),
            2: (1, (1, 3, 1, 4)),
            3: (2, (0, 2, 0, 3)),
            4: (2, (2, 4, 3, 6)),
            5: (3, (0, 2, 0, 2)),
            6: (3, (0, 2, 2, 4)),
            7: (3, (2, 4, 2, 4)),
            8: (3, (2, 4, 4, 6)),
        },
        "edges": [(1, 2), (2, 3), (2, 4), (3, 5), (3, 6), (4, 7), (4, 8)],
    },
    # for the 65-frame world: a track through the first and the last frames, a second one in a corner
    "movie": {
        "nodes": {1: (0, (0, 2, 0, 2)), 2: (1, (0, 2, 1, 3)), 3: (63, (1, 3, 1, 3)), 4: (64, (1, 3, 62, 65)), 5: (0, (60, 64, 60, 65))},
        "edges": [(1, 2), (2, 3), (3, 4)],
    },
    # for the 258-frame world: a track across frame 256
    "tall": {
        "nodes": {1: (0, (0, 2, 0, 2)), 2: (1, (0, 2, 1, 3)), 3: (256, (1, 3, 1, 3)), 4: (257, (1, 3, 2, 5)), 5: (257, (0, 1, 0, 2))},
        "edges": [(1, 2), (2, 3), (3, 4)],
    },
    # ids 6, 7, 8 (a set of them does not iterate in ascending order) on a chain with a gap at frame 2
    "skip8": {
        "nodes": {6: (0, (0, 2, 0, 2)), 7: (1, (0, 2, 1, 3)), 8: (3, (0, 3, 1, 3)), 9: (3, (3, 4, 4, 6))},
        "edges": [(6, 7), (7, 8)],
    },
    # three unconnected nodes in consecutive frames
    "iso3": {
        "nodes": {1: (0, (0, 2, 0, 2)), 2: (1, (0, 2, 1, 3)), 3: (2, (1, 3, 1, 3))},
        "edges": [],
    },
    "fix6": {
        "nodes": {
            1: (0, (1, 3, 2, 4)),
            2: (1, (0, 2, 0, 2)),
            3: (1, (2, 4, 3, 5)),
            4: (2, (2, 4, 3, 6)),
            5: (3, (2, 4, 4, 6)),
            6: (3, (0, 2, 0, 2)),
        },
        "edges": [(1, 2), (1, 3), (3, 4), (4, 5)],
    },
}

# a chain of 1100 nodes (longer than the interpreter's recursion limit), one node per frame
SEEDS["long"] = {"nodes": {i: (i - 1, (0, 2, 0, 2)) for i in range(1, 1101)}, "edges": [(i, i + 1) for i in range(1, 1100)]}

# anisotropic scales are chosen with a voxel size != 1, so that "area" and "pixel count"
# cannot be confused
WORLDS = {
    # name: ndim, seg, scale, pos mode, extra features, custom features, ids mode
    "noseg-2d": dict(ndim=3, seg=False, scale=None, pos="single", extra=[], custom=True, ids="compute"),
    "noseg-2d-given": dict(ndim=3, seg=False, scale=None, pos="single", extra=[], custom=True, ids="given"),
    "noseg-2d-given0": dict(ndim=3, seg=False, scale=None, pos="single", extra=[], custom=True, ids="given0"),
    "noseg-2d-bigids": dict(ndim=3, seg=False, scale=None, pos="single", extra=[], custom=True, ids="givenbig"),
    "seg-2d-bigids": dict(ndim=3, seg=True, scale=None, pos="single", extra=["iou"], custom=False, ids="givenbig"),
    "noseg-2d-fd": dict(ndim=3, seg=False, scale=None, pos="single", extra=[], custom=False, ids="featuredict"),
    # renamed time / position / track / lineage keys
    "noseg-2d-renamed": dict(ndim=3, seg=False, scale=None, pos="single", extra=[], custom=True, ids="compute",
                             keys=dict(time="t", pos="loc", track="tid", lineage="lin")),
    "noseg-2d-renamed-given": dict(ndim=3, seg=False, scale=None, pos="single", extra=[], custom=True, ids="given",
                                   keys=dict(time="t", pos="loc", track="tid", lineage="lin")),
    # tracks that went through save_tracks / load_tracks before the session starts
    "noseg-2d-reloaded": dict(ndim=3, seg=False, scale=None, pos="single", extra=[], custom=True, ids="compute", reload=True),
    "seg-2d-reloaded": dict(ndim=3, seg=True, scale=[1.0, 2.0, 0.75], pos="single", extra=["iou"], custom=False, ids="compute", reload=True),
    # a movie that holds one complete 64 x 64 x 64 chunk of the GEFF exporter (and partial ones next to it)
    "seg-2d-movie": dict(ndim=3, seg=True, scale=None, pos="single", extra=[], custom=False, ids="compute", T=65, shape=(64, 65)),
    # more frames than an 8-bit index can count, frames smaller than 256 pixels across
    "seg-2d-tall": dict(ndim=3, seg=True, scale=None, pos="single", extra=["iou"], custom=False, ids="compute", T=258),
    "noseg-2d-long": dict(ndim=3, seg=False, scale=None, pos="single", extra=[], custom=False, ids="compute", T=1100),
    # objects obtained by exporting to CSV / GEFF and importing the files again
    "noseg-2d-csv": dict(ndim=3, seg=False, scale=None, pos="single", extra=[], custom=False, ids="compute", reload="csv"),
    "noseg-2d-geff": dict(ndim=3, seg=False, scale=None, pos="single", extra=[], custom=False, ids="compute", reload="geff"),
    "seg-2d-geff": dict(ndim=3, seg=True, scale=[1.0, 2.0, 0.75], pos="single", extra=["iou"], custom=False, ids="compute", reload="geff"),
    "seg-2d-csvseg": dict(ndim=3, seg=True, scale=None, pos="single", extra=["iou"], custom=False, ids="compute", reload="csvseg"),
    # ... with the measurements and IoU loaded from the file instead of recomputed
    "seg-2d-geff-loaded": dict(ndim=3, seg=True, scale=[1.0, 1.0, 1.0], pos="single", extra=["iou", "circularity"], custom=False,
                               ids="compute", reload="geff", load_features=True),
    # ... written from an object whose area values were stale, imported with "recompute area"
    "seg-2d-geff-recompute": dict(ndim=3, seg=True, scale=[1.0, 2.0, 0.75], pos="single", extra=[], custom=False, ids="featuredict",
                                  stale=["area"], reload="geff", recompute=["area"]),
    "noseg-3d": dict(ndim=4, seg=False, scale=[1.0, 2.0, 1.0, 0.75], pos="single", extra=[], custom=True, ids="compute"),
    "noseg-2d-axes": dict(ndim=3, seg=False, scale=None, pos="axes", extra=[], custom=True, ids="compute"),
    "seg-2d": dict(ndim=3, seg=True, scale=None, pos="single", extra=["iou"], custom=True, ids="compute"),
    # a label array whose dtype already equals the bit depth an exporter would choose
    "seg-2d-u8": dict(ndim=3, seg=True, scale=None, pos="single", extra=["iou"], custom=False, ids="compute", dtype="uint8"),
    "seg-2d-core": dict(ndim=3, seg=True, scale=None, pos="single", extra=[], custom=False, ids="compute"),
    "seg-2d-aniso": dict(ndim=3, seg=True, scale=[1.0, 2.0, 0.75], pos="single", extra=["iou"], custom=False, ids="given"),
    "seg-2d-iso": dict(ndim=3, seg=True, scale=[1.0, 1.0, 1.0], pos="single", extra=["iou", "circularity"], custom=False, ids="compute"),
    # skimage's 2D perimeter supports isotropic spacing only (upstream limit)
    "seg-2d-all": dict(ndim=3, seg=True, scale=[1.0, 2.0, 2.0], pos="single",
                       extra=["iou", "ellipse_axis_radii", "circularity", "perimeter"], custom=True, ids="compute"),
    "seg-2d-aniso-ell": dict(ndim=3, seg=True, scale=[1.0, 2.0, 0.75], pos="single",
                       extra=["ellipse_axis_radii"], custom=False, ids="compute"),
    "seg-2d-fd": dict(ndim=3, seg=True, scale=None, pos="single", extra=[], custom=False, ids="featuredict"),
    # pre-built FeatureDict whose area values on the graph are stale (1.0): only an explicit
    # enable_features(["area"]) (recomputation) makes them trustworthy
    "seg-2d-fd-stale": dict(ndim=3, seg=True, scale=None, pos="single", extra=[], custom=False, ids="featuredict", stale=["area"]),
    # pre-built FeatureDict whose position key is not the default "pos"
    "seg-2d-fd-loc": dict(ndim=3, seg=True, scale=[1.0, 2.0, 0.75], pos="single", extra=[], custom=False, ids="featuredict",
                          keys=dict(pos="loc")),
    "seg-3d": dict(ndim=4, seg=True, scale=None, pos="single", extra=["iou"], custom=False, ids="compute"),
    "seg-3d-aniso": dict(ndim=4, seg=True, scale=[1.0, 2.0, 1.0, 0.75], pos="single", extra=["iou"], custom=True, ids="compute"),
    "seg-3d-all": dict(ndim=4, seg=True, scale=[1.0, 2.0, 1.0, 0.75], pos="single",
                       extra=["iou", "ellipse_axis_radii", "circularity", "perimeter"], custom=False, ids="compute"),
}


DEFAULT_KEYS = dict(time="time", pos="pos", track="track_id", lineage="lineage_id")


def world(name: str) -> dict:
    w = dict(WORLDS[name])
    w["name"] = name
    w["keys"] = dict(DEFAULT_KEYS, **w.get("keys", {}))
    return w


def frame_shape(w):
    if w.get("shape"):
        return tuple(w["shape"])
    return (H, W) if w["ndim"] == 3 else (D, H, W)


def nframes(w):
    return w.get("T", T)


def rect_pixels(w, t, rect):
    """np.nonzero-style index tuple (incl. time) of a rectangle mask."""
    y0, y1, x0, x1 = rect
    if w["ndim"] == 3:
        ys, xs = np.meshgrid(np.arange(y0, y1), np.arange(x0, x1), indexing="ij")
        return (np.full(ys.size, t, dtype=np.int64), ys.ravel(), xs.ravel())
    zs, ys, xs = np.meshgrid(np.arange(0, D), np.arange(y0, y1), np.arange(x0, x1), indexing="ij")
    return (np.full(ys.size, t, dtype=np.int64), zs.ravel(), ys.ravel(), xs.ravel())


def rect_pos(w, rect):
    y0, y1, x0, x1 = rect
    p = [(y0 + y1 - 1) / 2.0, (x0 + x1 - 1) / 2.0]
    if w["ndim"] == 4:
        p.insert(0, (D - 1) / 2.0)
    if w["scale"] is not None:
        p = [a * s for a, s in zip(p, w["scale"][1:])]
    return p


def segments(graph: nx.DiGraph):
    """Reference: maximal unbranched segments (independent of funtracks)."""
    g = nx.Graph()
    g.add_nodes_from(graph.nodes)
    for u in graph.nodes:
        succ = list(graph.successors(u))
        if len(succ) == 1:
            g.add_edge(u, succ[0])
    return [frozenset(c) for c in nx.connected_components(g)]


def components(graph: nx.DiGraph):
    g = nx.Graph()
    g.add_nodes_from(graph.nodes)
    g.add_edges_from(graph.edges)
    return [frozenset(c) for c in nx.connected_components(g)]


def make_graph(w, seed) -> tuple[nx.DiGraph, np.ndarray | None]:
    """Bare networkx graph (+ array) for a seed in a world, attributes per world."""
    if isinstance(seed, str):
        seed = SEEDS[seed]
    g = nx.DiGraph()
    seg = None
    if w["seg"]:
        seg = np.zeros((nframes(w), *frame_shape(w)), dtype=w.get("dtype", "int32"))
    tkey = w["keys"]["time"]
    for n, (t, rect) in seed["nodes"].items():
        attrs = {tkey: t}
        if w["seg"]:
            seg[rect_pixels(w, t, rect)] = n
        else:
            p = rect_pos(w, rect)
            if w["pos"] == "axes":
                names = ["y", "x"] if w["ndim"] == 3 else ["z", "y", "x"]
                for k, v in zip(names, p):
                    attrs[k] = v
            else:
                attrs[w["keys"]["pos"]] = p
        if w["custom"] and n % 2 == 1:
            attrs["score"] = (n - 1) * 0.5  # node 1 carries the falsy value 0.0
        g.add_node(n, **attrs)
    for u, v in seed["edges"]:
        if w["custom"] and (u + v) % 2 == 1:
            g.add_edge(u, v, w=float(u * 10 + v) - 12.0)  # edge (1, 2) carries the falsy value 0.0
        else:
            g.add_edge(u, v)
    if w["ids"] in ("given", "featuredict", "given0", "givenbig"):
        zero = w["ids"] == "given0"  # zero-based ids: the falsy id 0 is a legal track / lineage id
        big = w["ids"] == "givenbig"  # track ids crossing 255, lineage ids crossing 65535
        for i, s in enumerate(sorted(segments(g), key=lambda s: min(s))):
            for n in s:
                g.nodes[n][w["keys"]["track"]] = i if zero else (3 * i + 254 if big else 3 * i + 2)
        for j, c in enumerate(sorted(components(g), key=lambda s: min(s))):
            for n in c:
                g.nodes[n][w["keys"]["lineage"]] = j if zero else (2 * j + 65534 if big else 2 * j + 5)
    return g, seg


def custom_feature(ftype):
    return {
        "feature_type": ftype,
        "value_type": "float",
        "num_values": 1,
        "display_name": "Score" if ftype == "node" else "W",
        "required": False,
        "default_value": None,
    }


def build(w, seed) -> SolutionTracks:
    """Fresh real SolutionTracks for (world, seed)."""
    g, seg = make_graph(w, seed)
    pos_attr = None
    if w["pos"] == "axes":
        pos_attr = ["y", "x"] if w["ndim"] == 3 else ["z", "y", "x"]
    if w["ids"] == "featuredict":
        axis_names = ["z", "y", "x"] if w["ndim"] == 4 else ["y", "x"]
        k = w["keys"]
        feats = {k["time"]: Time(), k["pos"]: Position(axes=axis_names),
                 k["track"]: TrackletID(), k["lineage"]: LineageID()}
        if w["seg"]:
            # values must already be on the graph: compute them with a throw-away twin
            twin = SolutionTracks(g.copy(), segmentation=seg.copy(), ndim=w["ndim"], scale=w["scale"], time_attr=k["time"])
            twin.enable_features(["iou"])
            for n in g.nodes:
                g.nodes[n][k["pos"]] = twin.graph.nodes[n]["pos"]
                g.nodes[n]["area"] = 1.0 if "area" in w.get("stale", ()) else twin.graph.nodes[n]["area"]
            for e in g.edges:
                g.edges[e]["iou"] = twin.graph.edges[e]["iou"]
            feats["area"] = Area(ndim=w["ndim"])
            feats["iou"] = IoU()
        fd = FeatureDict(features=feats, time_key=k["time"], position_key=k["pos"],
                         tracklet_key=k["track"], lineage_key=k["lineage"])
        tracks = SolutionTracks(g, segmentation=seg, ndim=w["ndim"], scale=w["scale"], features=fd)
    else:
        k = w["keys"]
        renamed = k != DEFAULT_KEYS
        tracks = SolutionTracks(
            g, segmentation=seg, pos_attr=pos_attr if not renamed else k["pos"], scale=w["scale"], ndim=w["ndim"],
            time_attr=k["time"] if renamed else None, tracklet_attr=k["track"] if renamed else None,
            lineage_attr=k["lineage"] if renamed else None,
        )
    if w["extra"]:
        tracks.enable_features(list(w["extra"]))
    if w["custom"]:
        tracks.features["score"] = custom_feature("node")
        tracks.features["w"] = custom_feature("edge")
    if w.get("reload") in ("csv", "geff", "csvseg"):
        tracks = _through_files(tracks, w)
    elif w.get("reload"):
        import pathlib
        import shutil
        import tempfile
        from funtracks.import_export.internal_format import load_tracks, save_tracks
        base = "/dev/shm" if os.path.isdir("/dev/shm") and os.access("/dev/shm", os.W_OK) else None
        d = pathlib.Path(tempfile.mkdtemp(prefix="mcw_", dir=base))
        try:
            save_tracks(tracks, d)
            tracks = load_tracks(d, seg_required=w["seg"], solution=True)
        finally:
            shutil.rmtree(d, ignore_errors=True)
    return tracks


def _through_files(tracks, w):
    """the object a user gets by exporting to CSV / GEFF and importing the files again"""
    import pathlib
    import shutil
    import tempfile
    import pandas as pd
    from funtracks.import_export import export_to_csv, export_to_geff, import_from_geff
    from funtracks.import_export.csv._import import tracks_from_df
    if tracks.graph.number_of_nodes() == 0:
        return tracks
    base = "/dev/shm" if os.path.isdir("/dev/shm") and os.access("/dev/shm", os.W_OK) else None
    d = pathlib.Path(tempfile.mkdtemp(prefix="mcw_", dir=base))
    axes = ["y", "x"] if w["ndim"] == 3 else ["z", "y", "x"]
    f = tracks.features
    try:
        if w["reload"] == "csvseg":
            # a node table plus a label image whose labels differ from the node ids (label = id + 10):
            # the importer relabels the image and keeps the seg_id column as a plain node attribute
            seg = np.asarray(tracks.segmentation)
            parent = {v: u for u, v in tracks.graph.edges}
            rows = []
            for n in sorted(tracks.graph.nodes):
                p = tracks.get_position(n)
                r = {"time": int(tracks.get_time(n)), "id": int(n), "parent_id": int(parent.get(n, -1)), "seg_id": int(n) + 10}
                r.update({a: float(v) for a, v in zip(axes, p)})
                rows.append(r)
            back = tracks_from_df(pd.DataFrame(rows), segmentation=np.where(seg > 0, seg + 10, 0).astype(seg.dtype),
                                  scale=None if tracks.scale is None else list(tracks.scale),
                                  node_name_map={"time": "time", "pos": axes, "id": "id", "parent_id": "parent_id", "seg_id": "seg_id"})
            if w["extra"]:
                back.enable_features(list(w["extra"]))
        elif w["reload"] == "csv":
            export_to_csv(tracks, d / "t.csv")
            df = pd.read_csv(d / "t.csv", float_precision="round_trip")
            back = tracks_from_df(df, node_name_map={"time": "t", "pos": axes, "id": "id", "parent_id": "parent_id",
                                                     "track_id": "track_id"})
        else:
            export_to_geff(tracks, d / "g")
            nmap = {"time": f.time_key, "pos": axes, "track_id": f.tracklet_key, "lineage_id": f.lineage_key}
            has_seg = tracks.segmentation is not None
            kw = {}
            if w.get("load_features"):
                # measurements and IoU are taken from the file, not recomputed
                nkeys = [k for k in f.node_features if k not in (f.time_key, f.position_key, f.tracklet_key, f.lineage_key)]
                for k in nkeys:
                    nmap[k] = k
                kw["node_features"] = {k: False for k in nkeys}
                if "iou" in f.edge_features and tracks.graph.number_of_edges():
                    kw["edge_name_map"] = {"iou": "iou"}
                    kw["edge_features"] = {"iou": False}
            if w.get("recompute"):
                for k in w["recompute"]:
                    nmap[k] = k
                kw["node_features"] = {k: True for k in w["recompute"]}
            scale = w.get("import_scale", None if tracks.scale is None else list(tracks.scale))
            back = import_from_geff(d / "g" / "tracks", node_name_map=nmap,
                                    segmentation_path=(d / "g" / "segmentation") if has_seg else None,
                                    scale=scale, **kw)
            if w["extra"] and not w.get("load_features"):
                back.enable_features(list(w["extra"]))
    finally:
        shutil.rmtree(d, ignore_errors=True)
    return back


# ---------------------------------------------------------------------------
# exhaustive forest enumeration ("start from non-initial states")

def forests(n_max: int, t_max: int, min_nodes: int = 0):
    """All labelled forests with <= n_max nodes in frames 0..t_max-1.

    Nodes 1..n get non-decreasing frames (symmetry: ids are ordered by frame, ties
    allowed), every node picks no parent or a parent in an earlier frame that has
    fewer than two children.  Yields seed dicts (no masks; noseg worlds only).
    """
    for n in range(min_nodes, n_max + 1):
        for times in itertools.combinations_with_replacement(range(t_max), n):
            yield from _parents(times, 0, [], {})


def _parents(times, i, parents, nchild):
    n = len(times)
    if i == n:
        nodes = {}
        for k, t in enumerate(times):
            # positions: spread along x, one unit square each (for noseg worlds)
            nodes[k + 1] = (t, (k % H, k % H + 1, k % W, k % W + 1))
        edges = [(p, k + 1) for k, p in enumerate(parents) if p is not None]
        yield {"nodes": nodes, "edges": edges}
        return
    # no parent
    yield from _parents(times, i + 1, parents + [None], nchild)
    for p in range(1, i + 1):
        if times[p - 1] < times[i] and nchild.get(p, 0) < 2:
            nc = dict(nchild)
            nc[p] = nc.get(p, 0) + 1
            yield from _parents(times, i + 1, parents + [p], nc)


def seed_to_json(seed):
    if isinstance(seed, str):
        return seed
    return {"nodes": {str(k): [v[0], list(v[1])] for k, v in seed["nodes"].items()},
            "edges": [list(e) for e in seed["edges"]]}


def seed_from_json(j):
    if isinstance(j, str):
        return j
    return {"nodes": {int(k): (v[0], tuple(v[1])) for k, v in j["nodes"].items()},
            "edges": [tuple(e) for e in j["edges"]]}
