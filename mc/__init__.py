"""Bounded exhaustive model checking of funtracks (see /verif/DESIGN.md)."""
