"""CLI: python -m mc.check <PROPERTY> [--tier quick|thorough]

exit 0 = property held on everything explored (KNOWN-FINDING lines allowed),
exit 1 = VIOLATION line(s) printed, exit 2 = harness error.
"""
from __future__ import annotations

import argparse
import sys
import time

from . import bind  # noqa: F401
from . import report


def main(argv=None):
    ap = argparse.ArgumentParser()
    ap.add_argument("prop")
    ap.add_argument("--tier", default=None)
    ap.add_argument("--replay", default=None, help="re-execute one replay artefact")
    args = ap.parse_args(argv)
    prop = args.prop.upper()
    if args.replay:
        from . import replay
        return replay.main([args.replay])
    tier = report.tier_from_env(args.tier)
    t0 = time.time()
    from . import props
    if prop not in props.CHECKS:
        print(f"no check for {prop}", file=sys.stderr)
        return 2
    print(f"[{prop}] tier={tier} tree={bind.tree_fingerprint().get('src_sha1', '?')[:10]} src={bind.SRC}")
    res = props.CHECKS[prop](tier)
    code = report.finish(
        prop, tier, res["coverage"], res["violations"], t0,
        assumptions=res.get("assumptions"), replay_fn=res.get("replay_fn"),
    )
    return code


if __name__ == "__main__":
    sys.exit(main())
