"""Event alphabet (state dependent, simplest first) and the driver that applies
one event to a real SolutionTracks object under a watchdog."""
from __future__ import annotations

import signal
import warnings

import numpy as np

from . import bind  # noqa: F401
from . import worlds
from funtracks.exceptions import InvalidActionError  # noqa: E402
from funtracks.user_actions import (  # noqa: E402
    UserAddEdge,
    UserAddNode,
    UserDeleteEdge,
    UserDeleteNode,
    UserSwapPredecessors,
    UserUpdateNodeAttrs,
    UserUpdateSegmentation,
)

UNKNOWN = 99  # a node id that never exists
WATCHDOG_S = 4.0       # CPU seconds (a real non-terminating loop burns CPU)
WATCHDOG_WALL_S = 90.0  # wall-clock backstop (blocked forever without burning CPU)


class Hang(BaseException):
    pass


def _on_alarm(signum, frame):  # noqa: ARG001
    raise Hang()


def with_watchdog(fn, seconds=None, wall=None):
    """Run fn(); Hang is raised if it uses more than `seconds` of *CPU time* (ITIMER_PROF, so
    a worker that is merely descheduled on a loaded machine is not mistaken for a hang) or
    more than `wall` seconds of wall-clock time (default max(90, 20*seconds))."""
    seconds = WATCHDOG_S if seconds is None else seconds
    wall = wall if wall is not None else max(WATCHDOG_WALL_S, 20 * seconds)
    old_p = signal.signal(signal.SIGPROF, _on_alarm)
    old_a = signal.signal(signal.SIGALRM, _on_alarm)
    signal.setitimer(signal.ITIMER_PROF, seconds)
    signal.setitimer(signal.ITIMER_REAL, wall)
    try:
        return fn()
    finally:
        signal.setitimer(signal.ITIMER_PROF, 0)
        signal.setitimer(signal.ITIMER_REAL, 0)
        signal.signal(signal.SIGPROF, old_p)
        signal.signal(signal.SIGALRM, old_a)


# ---------------------------------------------------------------------------
# helpers on the current state

def node_times(tracks):
    return {int(n): int(tracks.get_time(n)) for n in tracks.graph.nodes}


def free_id(tracks):
    used = set(int(n) for n in tracks.graph.nodes)
    if tracks.segmentation is not None:
        used |= set(int(x) for x in np.unique(tracks.segmentation))
    i = 1
    while i in used:
        i += 1
    return i


def used_track_ids(tracks):
    return sorted({int(tracks.get_track_id(n)) for n in tracks.graph.nodes})


def _frame_pixels(tracks, t, label):
    """index tuple (without time) of the pixels of `label` in frame t, C order"""
    return np.nonzero(tracks.segmentation[t] == label)


def _pix_to_json(pix):
    return [[int(v) for v in a] for a in pix]


def _block_bg(tracks, t):
    """up to 4 background pixels of frame t, preferring a 2x2 block"""
    frame = tracks.segmentation[t]
    bg = frame == 0
    sp = frame.shape
    if frame.ndim == 2:
        for y in range(sp[0] - 1):
            for x in range(sp[1] - 1):
                if bg[y:y + 2, x:x + 2].all():
                    return [[y, y, y + 1, y + 1], [x, x + 1, x, x + 1]]
    else:
        for y in range(sp[1] - 1):
            for x in range(sp[2] - 1):
                if bg[:, y:y + 2, x:x + 2].all():
                    zs, ys, xs = [], [], []
                    for z in range(sp[0]):
                        for dy in (0, 1):
                            for dx in (0, 1):
                                zs.append(z), ys.append(y + dy), xs.append(x + dx)
                    return [zs, ys, xs]
    idx = np.nonzero(bg)
    if len(idx[0]) == 0:
        return None
    k = min(2, len(idx[0]))
    return [[int(v) for v in a[:k]] for a in idx]


def strokes(tracks, t):
    """menu of (name, pixel index lists) for frame t"""
    out = []
    labels = [int(x) for x in np.unique(tracks.segmentation[t]) if x != 0]
    bgblock = _block_bg(tracks, t)
    bgfirst = None
    if bgblock is not None:
        bgfirst = [[a[0]] for a in bgblock]
    for m in labels:
        pix = _pix_to_json(_frame_pixels(tracks, t, m))
        n = len(pix[0])
        if n >= 2:
            out.append((f"part{m}", [[a[0]] for a in pix]))
        out.append((f"all{m}", pix))
        if bgfirst is not None:
            out.append((f"straddle{m}", [[a[0]] + b for a, b in zip(pix, bgfirst)]))
    if bgblock is not None:
        out.append(("bg", bgblock))
    if len(labels) >= 2:
        p1 = _pix_to_json(_frame_pixels(tracks, t, labels[0]))
        p2 = _pix_to_json(_frame_pixels(tracks, t, labels[1]))
        out.append((f"two{labels[0]}_{labels[1]}", [a + [b[0]] for a, b in zip(p1, p2)]))
        out.append((f"both{labels[0]}_{labels[1]}", [a + b for a, b in zip(p1, p2)]))
    return out


def new_pos(w, node, t):
    p = [float(t) + 0.25, float(node) + 0.5]
    if w["ndim"] == 4:
        p.insert(0, 0.5)
    return p


# ---------------------------------------------------------------------------
# alphabet

def enabled_events(tracks, w, kinds=None):
    """Full state-dependent alphabet (accepted *and* refused inputs)."""
    g = tracks.graph
    nodes = sorted(int(n) for n in g.nodes)
    times = node_times(tracks)
    ev = []

    def want(k):
        return kinds is None or k in kinds

    if want("del_node"):
        for n in nodes:
            ev.append(("del_node", n))
            if w["seg"]:
                # the optional argument "pixels of the node, if known": the node's own mask handed in
                # (accepted; nothing is looked up in the array) and a mask outside the array (refused
                # by the final DeleteNode, i.e. after edges were removed / re-connected)
                ev.append(("del_node", n, "own_pix"))
                ev.append(("del_node", n, "bad_pix"))
            else:
                # pixels for tracks that have no label array: refused by the final DeleteNode
                ev.append(("del_node", n, "bad_pix"))
        ev.append(("del_node", UNKNOWN))
    if want("del_edge"):
        for u, v in sorted(g.edges):
            ev.append(("del_edge", int(u), int(v)))
        if len(nodes) >= 2:
            ne = next(((a, b) for a in nodes for b in nodes if a != b and not g.has_edge(a, b)), None)
            if ne:
                ev.append(("del_edge", ne[0], ne[1]))
        ev.append(("del_edge", UNKNOWN, UNKNOWN + 1))
    if want("add_edge"):
        for u in nodes:
            for v in nodes:
                if u != v:
                    for force in (False, True):
                        ev.append(("add_edge", u, v, force))
        if nodes:
            ev.append(("add_edge", nodes[0], UNKNOWN, False))
            ev.append(("add_edge", UNKNOWN, nodes[0], True))
    if want("add_node"):
        nid = free_id(tracks)
        tids = used_track_ids(tracks)
        nxt = int(tracks.get_next_track_id())
        # fresh id, the id just above it (a one-step gap) and a wider gap
        cand_tids = tids + [nxt, nxt + 1, nxt + 3]
        for t in range(worlds.nframes(w)):
            pix = None
            if w["seg"]:
                pix = _block_bg(tracks, t)
                if pix is None:
                    continue
            for tid in cand_tids:
                for force in (False, True):
                    if tid >= nxt and force:
                        continue
                    ev.append(("add_node", nid, t, tid, force, "ok", pix))
        if w["seg"]:
            # computed features handed in together with the pixels (as the inverse of a node
            # deletion does): the annotators must still measure the mask
            for t in (0, 2):
                pix = _block_bg(tracks, t)
                if pix is not None:
                    ev.append(("add_node", nid, t, nxt, False, "stale_attrs", pix))
        # refusal inputs
        pix0 = _block_bg(tracks, 1) if w["seg"] else None
        ev.append(("add_node", nid, 1, nxt, False, "no_time", pix0))
        ev.append(("add_node", nid, 1, nxt, False, "no_tid", pix0))
        # the key is present but carries no value (None): as missing as an absent key
        ev.append(("add_node", nid, 1, nxt, False, "none_tid", pix0))
        ev.append(("add_node", nid, 1, nxt, False, "none_time", pix0))
        if not w["seg"]:
            for tid in cand_tids[:3]:
                ev.append(("add_node", nid, 1, tid, True, "no_pos", None))
                ev.append(("add_node", nid, 2, tid, False, "no_pos", None))
                for t in (1, 2):
                    ev.append(("add_node", nid, t, tid, True, "pix_noseg", None))
                    ev.append(("add_node", nid, t, tid, False, "pix_noseg", None))
                if w["pos"] == "axes":
                    # only one of the per-axis position keys is given
                    ev.append(("add_node", nid, 1, tid, True, "part_pos", None))
                    ev.append(("add_node", nid, 2, tid, False, "part_pos", None))
        if nodes:
            ev.append(("add_node", nodes[0], 1, nxt, False, "ok", pix0))
        if w["seg"] and tracks.segmentation.dtype.kind in "ui" and tracks.segmentation.dtype.itemsize <= 2:
            # an id that the label array cannot hold: refused by numpy when the mask is painted,
            # whatever was done before (forced removal of a division, skip edge replaced)
            wide = int(np.iinfo(tracks.segmentation.dtype).max) + 1
            for t in range(worlds.nframes(w)):
                pix = _block_bg(tracks, t)
                if pix is None:
                    continue
                for tid in cand_tids:
                    for force in (False, True):
                        if tid >= nxt and force:
                            continue
                        ev.append(("add_node", wide, t, tid, force, "ok", pix))
    if want("swap"):
        for i, u in enumerate(nodes):
            for v in nodes[i + 1:]:
                ev.append(("swap", u, v))
        if nodes:
            ev.append(("swap", nodes[0], nodes[0]))
            ev.append(("swap", nodes[0], UNKNOWN))
        if len(nodes) >= 3:
            ev.append(("swap", nodes[0], nodes[1], nodes[2]))
    if want("set_attr"):
        keys = []
        if w["custom"]:
            keys.append(("score", 2.5))
            keys.append(("score", 0.0))
        keys.append(("note", 1.0))  # unregistered key
        f = tracks.features
        for k in sorted({"time", "track_id", "lineage_id", f.time_key, f.tracklet_key, f.lineage_key} - {None}):
            keys.append((k, 1))
        keys.append(("area", 3.0))
        keys.append(("iou", 0.5))
        keys.append(("circularity", 0.5))
        if w["pos"] == "single":
            keys.append((w["keys"]["pos"], [9.0] * (w["ndim"] - 1)))
        for n in nodes[:3]:
            for k, val in keys:
                ev.append(("set_attr", n, k, val))
        # a change in the 7th significant digit is still a change (and undo must take it back)
        for n in nodes[:4]:
            for k in (["score"] if w["custom"] else []) + ([w["keys"]["pos"]] if w["pos"] == "single" else []):
                cur = tracks.graph.nodes[n].get(k)
                if isinstance(cur, (int, float)) and not isinstance(cur, bool) and cur != 0:
                    ev.append(("set_attr", n, k, float(cur) * (1 + 2e-7)))
                elif isinstance(cur, (list, tuple, np.ndarray)) and len(cur) and float(cur[0]) != 0:
                    ev.append(("set_attr", n, k, [float(cur[0]) * (1 + 2e-7)] + [float(x) for x in list(cur)[1:]]))
        ev.append(("set_attr", UNKNOWN, "note", 1.0))
    if want("paint") and w["seg"]:
        nid = free_id(tracks)
        nxt = int(tracks.get_next_track_id())
        by_t = {}
        for n, t in times.items():
            by_t.setdefault(t, []).append(n)
        for t in range(worlds.nframes(w)):
            labels = [int(x) for x in np.unique(tracks.segmentation[t]) if x != 0]
            near = set()
            for dt in (-1, 1, -2, 2):
                for n in by_t.get(t + dt, []):
                    near.add(int(tracks.get_track_id(n)))
            here = {int(tracks.get_track_id(n)) for n in by_t.get(t, [])}
            ext = sorted(near - here)[:2] + sorted(near & here)[:1]
            bg1 = _block_bg(tracks, t)
            if bg1 is not None and t == 0:
                # an eraser stroke over pure background: nothing changes, but the call is a
                # successful top-level action all the same
                ev.append(("paint", t, bg1, 0, nxt, False, "nochange"))
            for name, pix in strokes(tracks, t):
                ev.append(("paint", t, pix, 0, nxt, False, name))
                for m in labels:
                    ev.append(("paint", t, pix, m, nxt, False, name))
                ev.append(("paint", t, pix, nid, nxt, False, name))
                # no track selected (None) while a new label is painted: refused by the nested
                # add-node, i.e. after the nodes under the stroke were shrunk / deleted
                ev.append(("paint", t, pix, nid, None, False, name))
                for tid in ext:
                    ev.append(("paint", t, pix, nid, tid, False, name))
                    ev.append(("paint", t, pix, nid, tid, True, name))
    return ev


def primitive_events(tracks, w):
    """Primitive (BasicAction) alphabet restricted to the documented preconditions."""
    g = tracks.graph
    nodes = sorted(int(n) for n in g.nodes)
    times = node_times(tracks)
    ev = []
    nid = free_id(tracks)
    nxt_t = int(tracks.get_next_track_id())
    nxt_l = int(tracks.get_next_lineage_id())
    for t in range(worlds.nframes(w)):
        pix = _block_bg(tracks, t) if w["seg"] else None
        if w["seg"] and pix is None:
            continue
        ev.append(("p_add_node", nid, t, nxt_t, nxt_l, pix))
    for n in nodes:
        if g.in_degree(n) == 0 and g.out_degree(n) == 0:
            ev.append(("p_del_node", n))
    for u in nodes:
        for v in nodes:
            if u != v and times[u] < times[v] and not g.has_edge(u, v) and g.in_degree(v) == 0 and g.out_degree(u) < 2:
                ev.append(("p_add_edge", u, v))
    for u, v in sorted(g.edges):
        ev.append(("p_del_edge", int(u), int(v)))
    for n in nodes[:3]:
        if w["custom"]:
            ev.append(("p_set_attr", n, "score", 4.5))
        ev.append(("p_set_attr", n, "note", 1.0))
        ev.append(("p_track", n, nxt_t, nxt_l))
        ev.append(("p_track", n, nxt_t, None))
    if w["seg"]:
        for n in nodes:
            t = times[n]
            own = _pix_to_json(_frame_pixels(tracks, t, n))
            if len(own[0]) >= 2:
                ev.append(("p_seg", n, t, [[a[0]] for a in own], False))
            bg = _block_bg(tracks, t)
            if bg is not None:
                ev.append(("p_seg", n, t, bg, True))
    return ev


def make_primitive(tracks, w, ev):
    """construct (= apply) the primitive action of a p_* event"""
    from funtracks.actions import (
        AddEdge, AddNode, DeleteEdge, DeleteNode, UpdateNodeAttrs, UpdateNodeSeg, UpdateTrackIDs,
    )
    k = ev[0]
    f = tracks.features
    if k == "p_add_node":
        _, nid, t, tid, lid, pix = ev
        attrs = {f.time_key: t, f.tracklet_key: tid}
        if f.lineage_key is not None:
            attrs[f.lineage_key] = lid
        pixels = None
        if w["seg"] and pix is not None:
            pixels = (np.full(len(pix[0]), t, dtype=np.int64), *[np.array(a, dtype=np.int64) for a in pix])
        else:
            p = new_pos(w, nid, t)
            if isinstance(f.position_key, list):
                for kk, v in zip(f.position_key, p):
                    attrs[kk] = v
            else:
                attrs[f.position_key] = p
        return AddNode(tracks, nid, attrs, pixels)
    if k == "p_del_node":
        return DeleteNode(tracks, ev[1])
    if k == "p_add_edge":
        return AddEdge(tracks, (ev[1], ev[2]))
    if k == "p_del_edge":
        return DeleteEdge(tracks, (ev[1], ev[2]))
    if k == "p_set_attr":
        return UpdateNodeAttrs(tracks, ev[1], {ev[2]: ev[3]})
    if k == "p_track":
        return UpdateTrackIDs(tracks, ev[1], ev[2], ev[3])
    if k == "p_seg":
        _, n, t, pix, added = ev
        pixels = (np.full(len(pix[0]), t, dtype=np.int64), *[np.array(a, dtype=np.int64) for a in pix])
        return UpdateNodeSeg(tracks, n, pixels, added=added)
    raise RuntimeError(f"unknown primitive {ev!r}")


# ---------------------------------------------------------------------------
# driver

class Outcome:
    __slots__ = ("status", "action", "exc", "refresh", "painted", "warnings", "noop")

    def __init__(self):
        self.status = None  # "ok" | "raised" | "hang" | "noop"
        self.action = None
        self.exc = None
        self.refresh = []
        self.painted = None  # (idx, old_values, new_value) for paint events
        self.warnings = []
        self.noop = False


def attach_refresh_counter(tracks):
    box = []
    tracks.refresh.connect(lambda *a: box.append(a[0] if a else None))
    tracks._mc_refresh = box
    return box


def apply_event(tracks, w, ev, restore_on_refusal=True) -> Outcome:
    """Run one event on the real object. Never lets an exception escape except
    harness errors."""
    out = Outcome()
    box = getattr(tracks, "_mc_refresh", None)
    if box is None:
        box = attach_refresh_counter(tracks)
    n0 = len(box)
    kind = ev[0]

    def run():
        if kind == "add_edge":
            return UserAddEdge(tracks, (ev[1], ev[2]), force=ev[3])
        if kind == "del_edge":
            return UserDeleteEdge(tracks, (ev[1], ev[2]))
        if kind == "del_node":
            variant = ev[2] if len(ev) > 2 else None
            if variant == "own_pix":
                return UserDeleteNode(tracks, ev[1], pixels=tracks.get_pixels(ev[1]))
            if variant == "bad_pix":
                if w["seg"]:
                    far = tuple(np.array([s]) for s in tracks.segmentation.shape)
                else:
                    far = tuple(np.array([0]) for _ in range(w["ndim"]))
                return UserDeleteNode(tracks, ev[1], pixels=far)
            return UserDeleteNode(tracks, ev[1])
        if kind == "add_node":
            _, nid, t, tid, force, variant, pix = ev[:7]
            attrs = {tracks.features.time_key: t, tracks.features.tracklet_key: tid}
            if variant == "no_time":
                del attrs[tracks.features.time_key]
            if variant == "no_tid":
                del attrs[tracks.features.tracklet_key]
            if variant == "none_tid":
                attrs[tracks.features.tracklet_key] = None
            if variant == "none_time":
                attrs[tracks.features.time_key] = None
            pixels = None
            if variant == "stale_attrs":
                for k in tracks.annotators.features:
                    feat = tracks.annotators.all_features[k][0]
                    if feat["feature_type"] == "node" and k not in (tracks.features.tracklet_key, tracks.features.lineage_key):
                        attrs[k] = [0.0] * feat["num_values"] if feat["num_values"] > 1 else 999.0
            if w["seg"] and pix is not None:
                pixels = (np.full(len(pix[0]), t, dtype=np.int64), *[np.array(a, dtype=np.int64) for a in pix])
            elif variant == "pix_noseg":
                # a mask for tracks that have no label array: refused by AddNode itself, i.e. after
                # the forced removal of conflicting edges
                pixels = (np.array([t]), *[np.array([0]) for _ in range(w["ndim"] - 1)])
            elif variant != "no_pos":
                p = new_pos(w, nid, t)
                pk = tracks.features.position_key
                if isinstance(pk, list):
                    for k, v in zip(pk, p):
                        attrs[k] = v
                        if variant == "part_pos":
                            break
                else:
                    attrs[pk] = p
            return UserAddNode(tracks, nid, attrs, pixels=pixels, force=force)
        if kind == "swap":
            return UserSwapPredecessors(tracks, tuple(ev[1:]))
        if kind == "set_attr":
            val = ev[3]
            return UserUpdateNodeAttrs(tracks, ev[1], {ev[2]: list(val) if isinstance(val, (list, tuple)) else val})
        if kind == "paint":
            _, t, pix, value, tid, force = ev[:6]
            idx = (np.full(len(pix[0]), t, dtype=np.int64), *[np.array(a, dtype=np.int64) for a in pix])
            seg = tracks.segmentation
            old = seg[idx].copy()
            changed = old != value
            if not changed.any():
                if len(ev) > 6 and ev[6] == "nochange":
                    out.painted = (idx, old.copy(), value)
                    return UserUpdateSegmentation(tracks, value, [(idx, int(v)) for v in sorted(set(old.tolist()))][:1], tid, force=force)
                out.noop = True
                return None
            updated = []
            for ov in sorted(set(int(x) for x in old[changed])):
                m = (old == ov) & changed
                updated.append((tuple(a[m] for a in idx), ov))
            cidx = tuple(a[changed] for a in idx)
            out.painted = (cidx, old[changed].copy(), value)
            seg[cidx] = value
            return UserUpdateSegmentation(tracks, value, updated, tid, force=force)
        if kind == "undo":
            return tracks.undo()
        if kind == "redo":
            return tracks.redo()
        if kind.startswith("p_"):
            return make_primitive(tracks, w, ev)
        if kind == "enable":
            return tracks.enable_features(list(ev[1]))
        if kind == "disable":
            return tracks.disable_features(list(ev[1]))
        raise RuntimeError(f"unknown event {ev!r}")

    with warnings.catch_warnings(record=True) as wlist:
        warnings.simplefilter("always")
        try:
            out.action = with_watchdog(run)
            out.status = "noop" if out.noop else "ok"
        except Hang:
            out.status = "hang"
        except Exception as e:  # noqa: BLE001
            out.status = "raised"
            out.exc = e
    out.warnings = [str(x.message)[:120] for x in wlist]
    if out.status in ("raised",) and out.painted is not None and restore_on_refusal:
        cidx, oldv, _ = out.painted
        tracks.segmentation[cidx] = oldv  # documented caller duty on refusal
    out.refresh = list(box[n0:])
    return out


def exc_tag(e):
    """exception type + message stem (digits removed) - a 'refusal reason'"""
    import re
    msg = re.sub(r"[\d\.\(\),\[\]' ]+", " ", str(e)).strip()
    return f"{type(e).__name__}:{msg[:70]}"


def branch_tag(action):
    """names of the sub-actions a composite action actually executed"""
    if action is None or not hasattr(action, "actions"):
        return type(action).__name__
    def rec(a):
        if hasattr(a, "actions"):
            return type(a).__name__ + "(" + ",".join(rec(x) for x in a.actions) + ")"
        return type(a).__name__
    return rec(action)


def ev_to_json(ev):
    return [list(x) if isinstance(x, tuple) else x for x in ev]


def ev_from_json(j):
    out = []
    for i, x in enumerate(j):
        out.append(x)
    if out and out[0] in ("enable", "disable"):
        out[1] = tuple(out[1])
    return tuple(out)


__all__ = ["InvalidActionError"]
