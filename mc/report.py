"""Evidence files, replay artefacts, known findings, exit codes."""
from __future__ import annotations

import hashlib
import json
import os
import sys
import time

from . import bind

ROOT = os.path.dirname(os.path.dirname(os.path.abspath(__file__)))
# scratch runs against mutants redirect these so that committed evidence is not touched
EVIDENCE_DIR = os.environ.get("VERIF_EVIDENCE_DIR") or os.path.join(ROOT, "evidence")
REPLAY_DIR = os.environ.get("VERIF_REPLAY_DIR") or os.path.join(ROOT, "replays")
KNOWN_FILE = os.path.join(ROOT, "known_findings.json")


def load_known():
    if not os.path.exists(KNOWN_FILE):
        return {"findings": [], "fixed": []}
    with open(KNOWN_FILE) as f:
        return json.load(f)


def sig_hash(sig: str) -> str:
    return hashlib.sha1(sig.encode()).hexdigest()[:12]


def group_violations(violations):
    """one representative (shortest history, simplest first) per signature"""
    best = {}
    count = {}
    for i, v in enumerate(violations):
        s = v["signature"]
        count[s] = count.get(s, 0) + 1
        k = (v.get("depth", 0), len(json.dumps(v.get("history", []))), i)
        if s not in best or k < best[s][0]:
            best[s] = (k, v)
    return {s: (v, count[s]) for s, (k, v) in best.items()}


def finish(prop: str, tier: str, coverage: dict, violations: list, t0: float,
           assumptions=None, replay_fn=None, level="model_checking"):
    """Write evidence, classify violations against the known-findings file, print
    VIOLATION / KNOWN-FINDING lines, return the exit code."""
    os.makedirs(EVIDENCE_DIR, exist_ok=True)
    known = load_known()
    import re
    entries = [f for f in known.get("findings", []) if f.get("property") == prop]
    known_sigs = {}

    def lookup(sig):
        for f in entries:
            if f.get("signature") == sig:
                return f
            rx = f.get("signature_regex")
            if rx and re.fullmatch(rx, sig):
                return f
        return None

    groups = group_violations(violations)
    new = []
    met_known = []
    for sig in sorted(groups):
        v, n = groups[sig]
        f = lookup(sig)
        if f is not None:
            known_sigs[sig] = f
            met_known.append((sig, v, n))
        else:
            new.append((sig, v, n))
    exit_code = 0
    out_lines = []
    by_entry = {}
    for sig, v, n in met_known:
        e = known_sigs[sig]
        by_entry.setdefault(e.get("id", sig), [e, 0, []])
        by_entry[e.get("id", sig)][1] += n
        by_entry[e.get("id", sig)][2].append(sig)
    for eid, (e, n, sigs) in sorted(by_entry.items()):
        out_lines.append(f"KNOWN-FINDING: property={prop} {eid}: {e.get('what', '')} ({n} occurrences, {len(sigs)} signature(s))")
    replay_paths = []
    unrepro = []
    for sig, v, n in new:
        d = os.path.join(REPLAY_DIR, prop)
        os.makedirs(d, exist_ok=True)
        path = os.path.join(d, sig_hash(sig) + ".json")
        rec = dict(v)
        rec["occurrences"] = n
        rec["tree"] = bind.tree_fingerprint()
        with open(path, "w") as f:
            json.dump(rec, f, indent=1, default=_jd)
        # determinism guard: the artefact must reproduce, twice, in this process
        if replay_fn is not None:
            r1 = replay_fn(rec)
            r2 = replay_fn(rec)
            if r1 != r2 or not r1:
                # Two replays in this (long-lived) process disagree.  Either the harness is not
                # deterministic, or the library keeps state between calls at module / class
                # level, so that the second replay starts from what the first one left behind.
                # Decide by replaying the artefact twice more, each in a fresh interpreter: if both
                # reproduce the recorded signature the failure is a deterministic function of the
                # artefact alone and is reported; otherwise it is a harness error.
                fresh = [_fresh_replay(path) for _ in range(2)]
                if not all(fresh):
                    # not a function of the artefact alone (e.g. it needed what an earlier case of
                    # the same worker left behind): never reported as a violation by itself
                    unrepro.append(f"replay of {path} is not reproducible: {r1} vs {r2}; fresh interpreters: {fresh}")
                    continue
                out_lines.append(f"  note: {path} reproduces in every fresh interpreter but not twice in one process "
                                 f"({r1} then {r2}): the library carries state from one call to the next")
        replay_paths.append(path)
        out_lines.append(f"VIOLATION property={prop} replay={path}")
        out_lines.append(f"  signature: {sig}")
        out_lines.append(f"  detail: {str(v.get('detail'))[:300]}")
        exit_code = 1
    if unrepro and exit_code == 0:
        # nothing that was observed can be reproduced from its artefact: the harness, not the library
        for u in unrepro:
            print(f"HARNESS ERROR: {u}")
        _write_evidence(prop, tier, coverage, violations, t0, assumptions, level, harness_error=True)
        return 2
    for u in unrepro:
        out_lines.append(f"  note (not counted): {u}")
    coverage = dict(coverage)
    coverage["known_findings_met"] = [s for s, _, _ in met_known]
    coverage["new_violation_signatures"] = [s for s, _, _ in new]
    _write_evidence(prop, tier, coverage, violations, t0, assumptions, level, n_new=len(new))
    for line in out_lines:
        print(line)
    print(f"[{prop}] tier={tier} states={coverage.get('states')} transitions={coverage.get('transitions')} "
          f"exhaustive={coverage.get('exhaustive')} new_violations={len(new)} known={len(met_known)} "
          f"wall={time.time() - t0:.1f}s")
    return exit_code


def _fresh_replay(path):
    """python -m mc.replay <path> in a new interpreter; True iff it reports the recorded signature"""
    import subprocess
    import sys
    env = dict(os.environ)
    r = subprocess.run([sys.executable, "-m", "mc.replay", path], cwd=os.path.dirname(os.path.dirname(os.path.abspath(__file__))),
                       env=env, capture_output=True, text=True, timeout=600)
    return r.returncode == 1 and "STILL FAILS" in r.stdout


def _jd(o):
    try:
        import numpy as np
        if isinstance(o, np.generic):
            return o.item()
        if isinstance(o, np.ndarray):
            return o.tolist()
    except Exception:  # noqa: BLE001
        pass
    if isinstance(o, (set, frozenset)):
        return sorted(o, key=repr)
    return repr(o)


def _write_evidence(prop, tier, coverage, violations, t0, assumptions, level, n_new=0, harness_error=False):
    ev = {
        "property_id": prop,
        "tier": tier,
        "seed": int(os.environ.get("VERIF_SEED", "0") or 0),
        "level": level,
        "coverage": coverage,
        "assumptions": assumptions or [],
        "wall_s": round(time.time() - t0, 3),
        "violations": n_new,
        "raw_violation_reports": len(violations),
        "tree": bind.tree_fingerprint(),
        "jobs": int(os.environ.get("VERIF_JOBS", "0") or 0) or min(16, os.cpu_count() or 1),
    }
    if harness_error:
        ev["harness_error"] = True
    path = os.path.join(EVIDENCE_DIR, f"{prop}.json")
    tmp = path + ".tmp"
    with open(tmp, "w") as f:
        json.dump(ev, f, indent=1, default=_jd, sort_keys=True)
    os.replace(tmp, path)


def tier_from_env(argv_tier=None):
    t = argv_tier or os.environ.get("VERIF_TIER") or "quick"
    if t not in ("quick", "thorough"):
        print(f"unknown tier {t}", file=sys.stderr)
        sys.exit(2)
    return t
