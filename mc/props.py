"""Per-property plans: what is enumerated at which tier, and with which oracles."""
from __future__ import annotations

import os
import time

from . import bind  # noqa: F401
from . import events, explore, worlds

HAND_SEEDS = ["empty", "chain", "skip", "div", "two", "desc"]
NOSEG_SEEDS = HAND_SEEDS + ["zero", "twodiv"]  # node id 0 is legal only without a label array
ASSUME_COMMON = [
    "third-party behaviour (networkx, numpy, skimage.regionprops, psygnal) is trusted",
    "bounds: <= 8 seed nodes, 4 frames, 4x6 (x2) pixel frames, alphabets of DESIGN.md 3.2",
    "single-threaded deterministic library: no schedules or crash points to enumerate",
]


def budget(tier, quick_s, thorough_s):
    env = os.environ.get("VERIF_BUDGET_S")
    if env:
        return float(env)
    return quick_s if tier == "quick" else thorough_s


# ---------------------------------------------------------------------------
# E1 plumbing

def e1_replay(cfg, rec):
    """Re-execute one (state, event) artefact; returns sorted signatures seen."""
    w = worlds.world(rec["world"])
    seed = worlds.seed_from_json(rec["seed"])
    history = [events.ev_from_json(e) for e in rec["history"]]
    ev = events.ev_from_json(rec["event"])
    try:
        tracks = explore.rebuild(w, seed, history)
    except Exception as e:  # noqa: BLE001
        if ev[0] != "construct":
            raise
        return sorted({explore.mk_violation(p, "construct-raises", "", w, seed, [], ev, "construct", type(e).__name__,
                                            {"times": {}, "indeg": {}, "outdeg": {}, "edges": set()})["signature"]
                       for p in cfg.props})
    pre = explore.StatePre(tracks, cfg)
    if ev[0] == "construct":
        r = explore.expand((cfg, rec["world"], rec["seed"], [], False))
        return sorted({v["signature"] for v in r["violations"] if v["event"] == ["construct"]})
    r = explore.fire(cfg, w, seed, history, ev, tracks, pre)
    return sorted({v["signature"] for v in r["violations"]})


def run_e1(prop, tier, stages, cfg_kwargs, assumptions=None, time_budget=None):
    """stages: list of dict(name, worlds=[...], seeds=[...]|callable, depth, kinds?)
    All stages are explored; coverage is summed; `exhaustive` only if no stage
    was capped."""
    t0 = time.time()
    deadline = t0 + time_budget if time_budget else None
    cov = {"states": 0, "transitions": 0, "traces_validated_against_impl": 0, "stages": [],
           "samples": [], "exhaustive": True, "caps": []}
    all_vio = []
    outcome_tags = set()
    stats_total = {}
    cfgs = {}
    for st in stages:
        kw = dict(cfg_kwargs)
        kw.update(st.get("cfg", {}))
        cfg = explore.Cfg(props=kw.pop("props", [prop]), depth=st["depth"], kinds=st.get("kinds"), **kw)
        seeds = st["seeds"]() if callable(st["seeds"]) else st["seeds"]
        seeds = list(seeds)
        ws = [(wn, s) for wn in st["worlds"] for s in seeds]
        print(f"[{prop}] stage {st['name']}: {len(st['worlds'])} world(s) x {len(seeds)} seed(s), depth {st['depth']}")
        r = explore.run(cfg, ws, deadline=deadline, max_states=st.get("max_states"))
        for v in r["violations"]:
            v["engine"] = "E1"
            v["cfg"] = cfg.to_json() | {k: v2 for k, v2 in kw.items()}
            v["stage"] = st["name"]
        cfgs[st["name"]] = cfg
        all_vio.extend(v for v in r["violations"] if v["property"] == prop)
        cov["states"] += r["states"]
        cov["transitions"] += r["transitions"]
        # every explored transition is executed on the real implementation
        cov["traces_validated_against_impl"] += r["transitions"]
        outcome_tags |= set(r["tags"])
        for k, n in r["stats"].items():
            stats_total[k] = stats_total.get(k, 0) + n
        cov["stages"].append({
            "name": st["name"], "worlds": st["worlds"], "n_seeds": len(seeds), "depth_bound": st["depth"],
            "completed_depth": r["completed_depth"], "states": r["states"], "transitions": r["transitions"],
            "capped": r["capped"], "tainted_states": r["tainted_states"], "per_level": r["per_level"],
            "wall_s": round(r["wall_s"], 2),
        })
        if r["capped"]:
            cov["exhaustive"] = False
            cov["caps"].append(f"{st['name']}: {r['capped']}")
        for s in r["samples"]:
            if len(cov["samples"]) < 6:
                cov["samples"].append(s)
    if not cov["samples"]:
        cov["samples"].append({"note": "depth-1 exploration: every sample is (seed, single event)",
                               "example": all_vio[0]["event"] if all_vio else None})
    stats_total.pop("wall_ms", None)
    cov["event_outcomes"] = stats_total
    cov["distinct_outcome_tags"] = len(outcome_tags)
    cov["outcome_tags"] = sorted(outcome_tags)[:200]
    cov["rule"] = ("explicit-state BFS on the real code: every event of the state-dependent alphabet "
                   "(accepted and refused inputs) is fired in every distinct state; states de-duplicated on "
                   "a canonical key of graph+attributes+array+lookups+counters+registry+adjacency order")

    def replay_fn(rec):
        cfg = cfgs[rec["stage"]]
        sigs = e1_replay(cfg, rec)
        return sigs if rec["signature"] in sigs else []

    return {"coverage": cov, "violations": all_vio, "replay_fn": replay_fn,
            "assumptions": ASSUME_COMMON + (assumptions or [])}


def forests_seeds(n, t, min_nodes=1):
    return lambda: list(worlds.forests(n, t, min_nodes))


# ---------------------------------------------------------------------------
# plans

def check_c03(tier):
    q = tier == "quick"
    stages = [
        dict(name="noseg-bfs", worlds=["noseg-2d"], seeds=NOSEG_SEEDS, depth=2 if q else 3,
             kinds=("del_node", "del_edge", "add_edge", "add_node", "swap")),
        dict(name="renamed-keys", worlds=["noseg-2d-renamed"], seeds=["div", "skip", "zero"], depth=1 if q else 2,
             kinds=("del_node", "del_edge", "add_edge", "add_node", "swap")),
        dict(name="forests", worlds=["noseg-2d-given"], seeds=forests_seeds(4 if q else 5, 3 if q else 4), depth=1,
             kinds=("del_node", "del_edge", "add_edge", "add_node", "swap")),
        dict(name="seg-bfs", worlds=["seg-2d"] if q else ["seg-2d", "seg-3d"], seeds=HAND_SEEDS, depth=1 if q else 2,
             kinds=("del_node", "del_edge", "add_edge", "add_node", "swap", "paint")),
        dict(name="nested-divisions", worlds=["noseg-2d", "seg-2d"], seeds=["nested"], depth=1 if q else 2,
             kinds=("del_node", "del_edge", "add_edge", "add_node", "swap"), max_states=None if q else 1500),
        dict(name="ids-from-6", worlds=["noseg-2d", "seg-2d"], seeds=["skip8"], depth=1 if q else 2,
             kinds=("del_node", "del_edge", "add_edge", "add_node", "swap", "paint")),
    ]
    res = run_e1("C03", tier, stages, dict(undo_probe=True), time_budget=budget(tier, 300, 1500))
    return with_history_invariants("C03", tier, res)


STRUCT_KINDS = ("del_node", "del_edge", "add_edge", "add_node", "swap")


def struct_stages(tier, seg_depth_q=1, seg_depth_t=2, extra_kinds=()):
    q = tier == "quick"
    kinds = STRUCT_KINDS + tuple(extra_kinds)
    return [
        dict(name="noseg-bfs", worlds=["noseg-2d"], seeds=NOSEG_SEEDS, depth=2 if q else 3, kinds=kinds),
        dict(name="noseg-given-bfs", worlds=["noseg-2d-given", "noseg-2d-given0"], seeds=["div", "two", "desc"], depth=2 if q else 3, kinds=kinds),
        dict(name="renamed-keys", worlds=["noseg-2d-renamed", "noseg-2d-renamed-given"], seeds=["div", "skip", "zero"],
             depth=1 if q else 2, kinds=kinds),
        dict(name="reloaded", worlds=["noseg-2d-reloaded", "seg-2d-reloaded"], seeds=["div", "two", "desc"],
             depth=1 if q else 2, kinds=kinds),
        dict(name="imported", worlds=["noseg-2d-csv", "noseg-2d-geff", "seg-2d-geff"], seeds=["div", "two", "skip"],
             depth=1 if q else 2, kinds=kinds + ("add_node",)),
        dict(name="big-ids", worlds=["noseg-2d-bigids", "seg-2d-bigids"], seeds=["bigdiv"], depth=1 if q else 2, kinds=kinds),
        dict(name="ids-from-6", worlds=["noseg-2d", "seg-2d"], seeds=["skip8"], depth=1 if q else 2, kinds=kinds + ("add_node",)),
        dict(name="nested-divisions", worlds=["noseg-2d", "noseg-2d-given", "seg-2d"], seeds=["nested"], depth=1 if q else 2,
             kinds=("del_node", "del_edge", "add_edge", "swap"), max_states=None if q else 1500),
        dict(name="forests", worlds=["noseg-2d-given"], seeds=forests_seeds(4 if q else 5, 3 if q else 4), depth=1, kinds=kinds),
        # constructor clause: ids computed by the constructor on every forest
        dict(name="forests-computed-ids", worlds=["noseg-2d"], seeds=forests_seeds(4 if q else 5, 3 if q else 4), depth=1,
             kinds=("del_node", "del_edge") if q else kinds),
        dict(name="seg-bfs", worlds=["seg-2d"] if q else ["seg-2d", "seg-3d"], seeds=HAND_SEEDS,
             depth=seg_depth_q if q else seg_depth_t, kinds=kinds + ("paint",)),
    ]


def with_constructor_variants(prop, tier, res):
    """E3: every way of obtaining a SolutionTracks from every forest (ids computed, valid ids
    given and kept, Tracks -> from_tracks with / without / with partial ids)"""
    from . import smallscope as ss
    return merge_results(res, run_e3(prop, tier, [("ctor", "constructor variants on all forests; two objects alive in one process (B, A, B again) for all ordered pairs of short sessions", lambda: ss.ctor_cases(tier))],
                                     time_budget=budget(tier, 60, 600)))


def with_history_invariants(prop, tier, res):
    """E2: the state invariant of `prop` re-checked after every undo / redo of every call
    sequence of the C02 menus (deep undo/redo interleavings that the BFS probe does not reach)"""
    q = tier == "quick"
    menus = [(M1, 4 if q else 6), (M1B, 4 if q else 5), (M2, 3 if q else 5), (M_DEEP, 7 if q else 8),
             (M_NESTED, 4 if q else 5), (M_DEEP_LIN, 8 if q else 9), (M_LONG, 2 if q else 3)]
    return merge_results(res, run_e2(prop, tier, "C02", menus, inv_props=(prop,), time_budget=budget(tier, 90, 900)))


def check_c04(tier):
    res = run_e1("C04", tier, struct_stages(tier), dict(undo_probe=True), time_budget=budget(tier, 300, 1500))
    return with_constructor_variants("C04", tier, with_history_invariants("C04", tier, res))


def check_c05(tier):
    res = run_e1("C05", tier, struct_stages(tier), dict(undo_probe=True), time_budget=budget(tier, 300, 1500))
    return with_constructor_variants("C05", tier, with_history_invariants("C05", tier, res))


def check_c06(tier):
    res = run_e1("C06", tier, struct_stages(tier), dict(undo_probe=True), time_budget=budget(tier, 300, 1500))
    return with_constructor_variants("C06", tier, with_history_invariants("C06", tier, res))


def check_c11(tier):
    q = tier == "quick"
    stages = struct_stages(tier, extra_kinds=("set_attr",))
    # strokes that overwrite several nodes before a nested add-node is refused
    stages.append(dict(name="seg-twodiv", worlds=["seg-2d"], seeds=["twodiv", "fix6"], depth=1 if q else 2,
                       kinds=("paint", "add_node", "add_edge", "del_node")))
    stages.append(dict(name="noseg-axes", worlds=["noseg-2d-axes", "noseg-3d"], seeds=NOSEG_SEEDS, depth=1 if q else 2,
                       kinds=STRUCT_KINDS + ("set_attr",)))
    # a narrow label dtype: node ids that the array cannot hold are refused while the mask is painted
    stages.append(dict(name="uint8-labels", worlds=["seg-2d-u8"], seeds=["div", "skip", "two", "u8ids"], depth=1 if q else 2,
                       kinds=("add_node", "paint", "add_edge", "del_node"), max_states=None if q else 3000))
    # an object imported from a node table + label image (relabelled on import; nodes keep the
    # unregistered attribute seg_id)
    stages.append(dict(name="imported-with-seg-id", worlds=["seg-2d-csvseg"], seeds=["div", "twodiv", "skip"], depth=1 if q else 2,
                       kinds=("add_node", "paint", "add_edge", "del_node", "swap"), max_states=None if q else 3000))
    return run_e1("C11", tier, stages, dict(undo_probe=False), time_budget=budget(tier, 300, 1500))


def check_c20(tier):
    q = tier == "quick"
    res = run_e1("C20", tier, struct_stages(tier, extra_kinds=("set_attr",)), dict(undo_probe=True),
                 time_budget=budget(tier, 300, 1500))
    # undo()/redo() with nothing to do, refused edits inside longer histories: the E2 sequences
    # of C02 carry the refresh counter on every call
    res = merge_results(res, run_e2("C20", tier, "C02", [(M1, 4 if q else 6), (M2, 3 if q else 5), (M1B, 4 if q else 5),
                                                       (M_SEG_REFUSED, 4 if q else 6)],
                                    time_budget=budget(tier, 60, 900)))
    return merge_results(res, long_histories("C20", tier))


def check_c01(tier):
    q = tier == "quick"
    kinds = STRUCT_KINDS + ("set_attr", "primitive")
    stages = [
        dict(name="noseg-bfs", worlds=["noseg-2d", "noseg-2d-given"], seeds=NOSEG_SEEDS, depth=2 if q else 3, kinds=kinds),
        dict(name="noseg-zero-based-ids", worlds=["noseg-2d-given0"], seeds=["div", "two", "desc", "skip"], depth=2, kinds=kinds),
        dict(name="noseg-configs", worlds=["noseg-2d-axes", "noseg-3d", "noseg-2d-fd", "noseg-2d-renamed", "noseg-2d-renamed-given"],
             seeds=NOSEG_SEEDS, depth=1 if q else 2, kinds=kinds),
        dict(name="big-ids", worlds=["noseg-2d-bigids", "seg-2d-bigids"], seeds=["bigdiv"], depth=1 if q else 2, kinds=kinds + ("paint",)),
        dict(name="forests", worlds=["noseg-2d"], seeds=forests_seeds(4 if q else 5, 3 if q else 4), depth=1, kinds=kinds),
        dict(name="nested-divisions", worlds=["noseg-2d", "seg-2d"], seeds=["nested"], depth=1 if q else 2,
             kinds=kinds + ("paint",), max_states=None if q else 1500),
        dict(name="imported", worlds=["noseg-2d-csv", "noseg-2d-geff", "seg-2d-geff"], seeds=["div", "two", "skip"],
             depth=1 if q else 2, kinds=kinds + ("paint",)),
        dict(name="seg-bfs", worlds=["seg-2d", "seg-2d-aniso"] if q else ["seg-2d", "seg-2d-aniso", "seg-2d-all", "seg-3d", "seg-3d-aniso", "seg-2d-fd"],
             seeds=HAND_SEEDS + ["twodiv"], depth=1 if q else 2, kinds=kinds + ("paint",)),
    ]
    if q:
        stages.append(dict(name="seg-3d", worlds=["seg-3d-aniso"], seeds=["div", "skip", "two"], depth=1, kinds=kinds + ("paint",)))
    stages.append(dict(name="258-frame movie", worlds=["seg-2d-tall"], seeds=["tall"], depth=1, kinds=("del_node", "del_edge", "add_edge", "swap", "paint")))
    return run_e1("C01", tier, stages, dict(undo_probe=True), time_budget=budget(tier, 300, 1500))


SEG_KINDS = ("del_node", "del_edge", "add_edge", "add_node", "swap", "paint")


def merge_results(a, b):
    """combine the coverage of an E1 run and an E2 run of the same property"""
    cov = dict(a["coverage"])
    cb = b["coverage"]
    for k in ("states", "transitions", "traces_validated_against_impl"):
        cov[k] = cov.get(k, 0) + cb.get(k, 0)
    cov["exhaustive"] = bool(cov.get("exhaustive")) and bool(cb.get("exhaustive"))
    cov["caps"] = list(cov.get("caps", [])) + list(cb.get("caps", []))
    if cb.get("menus"):
        cov["call_sequence_menus"] = list(cov.get("call_sequence_menus", [])) + cb["menus"]
    if cb.get("parts"):
        cov["input_enumeration_parts"] = list(cov.get("input_enumeration_parts", [])) + cb["parts"]
    cov["samples"] = list(cov.get("samples", [])) + list(cb.get("samples", []))[:2]
    cov["rule"] = cov.get("rule", "") + " || " + cb.get("rule", "")
    ra, rb = a["replay_fn"], b["replay_fn"]

    def replay_fn(rec):
        # each engine's replay function recognises its own artefacts
        for fn in (ra, rb):
            try:
                r = fn(rec)
            except (KeyError, TypeError, AttributeError):
                continue
            if r:
                return r
        return []

    return {"coverage": cov, "violations": a["violations"] + b["violations"], "replay_fn": replay_fn,
            "assumptions": a.get("assumptions", [])}


def check_c07(tier):
    q = tier == "quick"
    stages = [
        dict(name="seg2d-bfs", worlds=["seg-2d-core"], seeds=HAND_SEEDS, depth=2 if q else 3, kinds=SEG_KINDS,
             max_states=None if q else 6000),
        dict(name="seg2d-iou", worlds=["seg-2d"], seeds=HAND_SEEDS + ["fix6"], depth=1 if q else 2, kinds=SEG_KINDS),
        dict(name="seg3d-bfs", worlds=["seg-3d"], seeds=HAND_SEEDS, depth=1 if q else 2, kinds=SEG_KINDS),
        dict(name="scaled", worlds=["seg-2d-aniso", "seg-2d-all", "seg-2d-geff"] if q else ["seg-2d-aniso", "seg-2d-all", "seg-3d-aniso", "seg-2d-geff"],
             seeds=HAND_SEEDS + ["twodiv"], depth=1 if q else 2, kinds=SEG_KINDS),
    ]
    stages.append(dict(name="258-frame movie", worlds=["seg-2d-tall"], seeds=["tall"], depth=1, kinds=("del_node", "add_edge", "paint")))
    res = run_e1("C07", tier, stages, dict(undo_probe=True), time_budget=budget(tier, 400, 2400))
    # long undo / redo interleavings of strokes: array against the timeline, invariant after every step back or forth
    res = merge_results(res, run_e2("C07", tier, "C02", [(M2, 4 if q else 6), (M_DEEP_SEG, 7 if q else 8)],
                                    inv_props=("C07",), time_budget=budget(tier, 90, 900)))
    from . import smallscope as ss
    return merge_results(res, run_e3("C07", tier, [("c07big", "strokes that leave 0/1/2/5 pixels of a 4x3 and of a 10**5 pixel mask",
                                                     lambda: ss.c07_big_cases(tier))], time_budget=budget(tier, 60, 600)))


def check_c08(tier):
    q = tier == "quick"
    mask_kinds = ("del_node", "add_node", "paint", "add_edge")
    stages = [
        dict(name="core-bfs", worlds=["seg-2d-core"], seeds=HAND_SEEDS, depth=2, kinds=mask_kinds if q else SEG_KINDS),
        dict(name="scales-2d", worlds=["seg-2d-aniso", "seg-2d-iso", "seg-2d-all", "seg-2d-aniso-ell", "seg-2d-fd-loc", "seg-2d-geff", "seg-2d-geff-loaded", "seg-2d-geff-recompute"], seeds=HAND_SEEDS,
             depth=1 if q else 2, kinds=SEG_KINDS),
        dict(name="3d", worlds=["seg-3d-aniso"] if q else ["seg-3d", "seg-3d-aniso", "seg-3d-all"], seeds=HAND_SEEDS,
             depth=1 if q else 2, kinds=mask_kinds if q else SEG_KINDS),
    ]
    stages.append(dict(name="wide-ids", worlds=["seg-2d-bigids"], seeds=["bigdiv"], depth=1 if q else 2, kinds=mask_kinds,
                       max_states=None if q else 2000))
    if q:
        # all 3D shape features (marching cubes, inertia tensor) on strokes that put one label
        # inside another label's bounding box
        stages.append(dict(name="3d-all-features", worlds=["seg-3d-all"], seeds=["div", "two"], depth=1, kinds=("paint", "add_node")))
    res = run_e1("C08", tier, stages, dict(undo_probe=True), time_budget=budget(tier, 400, 3000),
                 assumptions=["numpy reference for area/position uses rel_tol 1e-12; the from-scratch differential oracle is exact",
                              "2D perimeter/circularity only with isotropic spacing (skimage limitation)"])
    res = merge_results(res, run_e2("C08", tier, "C10", [(C08_TOGGLE, 3 if q else 4), (C08_TOGGLE_ANISO, 3 if q else 4)],
                                    alias={"enabled-regionprops-wrong": "C08"}, time_budget=budget(tier, 60, 900)))
    from . import smallscope as ss
    return merge_results(res, run_e3("C08", tier, [("c08big", "one-pixel edits of masks of 12, 2 500 and 104 640 pixels (area / position after edit, undo, redo)",
                                                     lambda: ss.c08_big_cases(tier, "C08"))], time_budget=budget(tier, 60, 600)))


def check_c09(tier):
    q = tier == "quick"
    stages = [
        dict(name="seg2d-bfs", worlds=["seg-2d"], seeds=HAND_SEEDS, depth=2, kinds=SEG_KINDS if not q else ("del_node", "add_node", "paint", "add_edge", "del_edge")),
        dict(name="aniso-given", worlds=["seg-2d-aniso", "seg-2d-fd", "seg-2d-geff", "seg-2d-geff-loaded"], seeds=HAND_SEEDS + ["fix6"], depth=1 if q else 2, kinds=SEG_KINDS),
        dict(name="3d", worlds=["seg-3d"], seeds=HAND_SEEDS, depth=1 if q else 2, kinds=SEG_KINDS),
        dict(name="uint8-labels", worlds=["seg-2d-u8"], seeds=["u8ids", "div"], depth=1 if q else 2, kinds=SEG_KINDS),
        dict(name="wide-ids", worlds=["seg-2d", "seg-2d-bigids"], seeds=["u32ids", "bigdiv"], depth=1 if q else 2, kinds=SEG_KINDS,
             max_states=None if q else 3000),
    ]
    res = run_e1("C09", tier, stages, dict(undo_probe=True), time_budget=budget(tier, 400, 3000))
    return merge_results(res, run_e2("C09", tier, "C10", [(C09_TOGGLE, 3 if q else 4), (C09_TOGGLE_EDGE, 5 if q else 7)],
                                     alias={"enabled-iou-wrong": "C09"}, time_budget=budget(tier, 60, 900)))


# ---------------------------------------------------------------------------
# E2 plumbing

def run_e2(prop, tier, runner, menus, assumptions=None, time_budget=None, keep_props=None, **kwargs):
    from . import histories
    t0 = time.time()
    deadline = t0 + time_budget if time_budget else None
    cov = {"states": 0, "transitions": 0, "traces_validated_against_impl": 0, "menus": [], "samples": [],
           "exhaustive": True, "caps": []}
    vio = []
    tags = {}
    for menu, L in menus:
        print(f"[{prop}] menu {menu['name']}: world {menu['world']}, seed {menu['seed']}, "
              f"{'full alphabet' if menu.get('full_alphabet') else str(len(menu['items'])) + ' items'}, length <= {L}")
        r = histories.run_tree(runner, menu, L, deadline=deadline, **kwargs)
        keep = keep_props or {prop}
        for v in r["violations"]:
            v["runner"] = runner
            v["menu_def"] = {k: (v2 if k != "items" else [events.ev_to_json(e) for e in v2]) for k, v2 in menu.items()}
            v["L"] = L
            v["inv_props"] = list(kwargs.get("inv_props", ()))
            v["alias"] = kwargs.get("alias")
        vio.extend(v for v in r["violations"] if v["property"] in keep)
        # no merging: every sequence is a distinct history (state of the hidden stacks)
        cov["states"] += r["sequences"]
        cov["transitions"] += r["calls"]
        cov["traces_validated_against_impl"] += r["sequences"]
        cov["menus"].append({"name": menu["name"], "world": menu["world"], "seed": worlds.seed_to_json(menu["seed"]),
                             "items": None if menu.get("full_alphabet") else [events.ev_to_json(e) for e in menu["items"]],
                             "length_bound": L, "completed_length": r["completed_length"], "sequences": r["sequences"],
                             "calls_executed": r["calls"], "pruned_after_violation": r["pruned"], "last_call_outcomes": r["tags"],
                             "capped": r["capped"], "wall_s": round(r["wall_s"], 2)})
        for k, n in r["tags"].items():
            tags[k] = tags.get(k, 0) + n
        if r["capped"]:
            cov["exhaustive"] = False
            cov["caps"].append(f"{menu['name']}: {r['capped']}")
        cov["samples"].extend(r["samples"][:2])
    cov["distinct_outcome_tags"] = len(tags)
    cov["last_call_outcomes"] = tags
    cov["rule"] = ("all call sequences up to the length bound over each menu, each executed from scratch on a fresh real "
                   "object in lock step with the reference model; 'states' counts distinct histories (no merging), "
                   "'transitions' counts calls executed on the implementation")

    def replay_fn(rec):
        sigs = e2_replay(rec)
        return sigs if rec["signature"] in sigs else []

    return {"coverage": cov, "violations": vio, "replay_fn": replay_fn,
            "assumptions": ASSUME_COMMON + (assumptions or [])}


def e2_replay(rec):
    from . import histories
    menu = dict(rec["menu_def"])
    menu["seed"] = worlds.seed_from_json(menu["seed"])
    if menu.get("items"):
        menu["items"] = [events.ev_from_json(e) for e in menu["items"]]
    path = [events.ev_from_json(e) for e in rec["history"]] + [events.ev_from_json(rec["event"])]
    runner = histories.RUNNERS[rec["runner"]]
    kwargs = {}
    if rec["runner"] == "C02":
        kwargs["inv_props"] = tuple(rec.get("inv_props", ()))
    if rec.get("alias"):
        kwargs["alias"] = rec["alias"]
    dead, vio, tag = runner(menu, path, len(path) == rec["L"], **kwargs)
    return sorted({v["signature"] for v in vio})


def generic_replay(rec):
    if rec.get("engine") == "E2":
        return e2_replay(rec)
    if rec.get("engine") == "E3":
        from . import smallscope
        return smallscope.replay(rec)
    raise SystemExit(f"unknown engine {rec.get('engine')}")


UNDO, REDO = ("undo",), ("redo",)

# ids in 'given' worlds: segments sorted by smallest node -> 2, 5, 8, ...; lineages 5, 7, ...
M1 = dict(name="M1-div-given", world="noseg-2d-given", seed="div", items=[
    ("add_edge", 3, 4, True),                       # forced: nests UserDeleteEdge (2,4)
    ("add_node", 5, 3, 5, False, "ok", None),       # extends track 5 (nodes 2,4)
    ("add_node", 6, 1, 2, True, "ok", None),        # forced behind the division of node 1
    ("del_node", 2),
    ("del_edge", 1, 3),
    ("set_attr", 1, "score", 2.5),
    UNDO, REDO,
])
M1B = dict(name="M1b-two", world="noseg-2d", seed="two", items=[
    ("swap", 2, 4),
    ("add_edge", 2, 5, False),
    ("add_edge", 4, 5, True),
    ("del_node", 2),
    ("add_node", 6, 2, 2, False, "ok", None),
    ("set_attr", 5, "score", 7.0),
    UNDO, REDO,
])
M2 = dict(name="M2-seg-div", world="seg-2d", seed="div", items=[
    ("paint", 2, [[2, 2, 3, 3], [3, 4, 3, 4]], 5, 9, False, "new"),       # new label, new track
    ("paint", 1, [[0, 0, 1, 1], [1, 2, 1, 2]], 3, 9, False, "over2"),     # 3 swallows node 2
    ("paint", 2, [[0, 0, 1, 1], [0, 1, 0, 1]], 0, 9, False, "erase4"),    # erase node 4
    ("paint", 0, [[1], [2]], 0, 9, False, "part1"),                        # shrink node 1
    ("add_edge", 3, 4, True),
    ("del_node", 3),
    UNDO, REDO,
])
# few items, long sequences: B is only legal after A, so replaying the timeline in a wrong order
# creates a merge (A, B, undo, undo, C, undo, undo needs length 7)
M_DEEP = dict(name="M-deep-chain", world="noseg-2d", seed="chain", items=[
    ("del_edge", 2, 3),                  # A
    ("add_edge", 1, 3, False),           # B: refused while 3 still has parent 2
    ("set_attr", 3, "score", 1.0000002), # C: any accepted edit (here: a change in the 7th digit of 1.0)
    UNDO, REDO,
])
# refused calls interleaved with accepted ones: a refused call must not become a step of the
# timeline, nor flush the pending redo steps
M_REFUSED = dict(name="M-refused-chain", world="noseg-2d", seed="chain", items=[
    ("set_attr", 1, "score", 2.5),       # accepted
    ("del_node", 3),                     # accepted once
    ("set_attr", 1, "time", 3),          # always refused (protected attribute)
    ("add_edge", 3, 1, False),           # always refused (not forward in time)
    UNDO, REDO,
])
# a refused stroke (new label continuing a track that divided upstream, no force) between
# accepted calls: whatever the refused call switched off must be back on for the next call
M_SEG_REFUSED = dict(name="M-seg-refused", world="seg-2d", seed="div", items=[
    ("paint", 2, [[2, 2, 3, 3], [3, 4, 3, 4]], 5, 1, False, "refused-new"),   # always refused
    ("paint", 0, [[1], [2]], 0, 9, False, "part1"),                            # shrink node 1
    ("del_edge", 2, 4),
    ("set_attr", 3, "score", 2.5),
    UNDO, REDO,
])
# two nested levels of divisions: relabelling walks that start above them, in every order of
# cutting / re-attaching (undo of a cut re-inserts the edge at the end of the successor list)
M_NESTED = dict(name="M-nested-divisions", world="noseg-2d", seed="nested", items=[
    ("del_edge", 1, 2),
    ("del_edge", 2, 3),
    ("del_edge", 2, 4),
    ("del_node", 2),
    UNDO, REDO,
])
# lineage-changing edits where B depends on A; A, B, undo, undo, C, undo, undo, undo needs length 8
M_DEEP_LIN = dict(name="M-deep-lineage", world="noseg-2d", seed="iso3", items=[
    ("add_edge", 2, 3, False),           # A
    ("add_edge", 1, 2, False),           # B
    ("set_attr", 3, "score", 2.5),       # C
    UNDO,
])
# the same shape of history on a label array: B paints over what A created
M_DEEP_SEG = dict(name="M-deep-seg-chain", world="seg-2d-core", seed="chain", items=[
    ("paint", 3, [[0, 0], [4, 5]], 7, 9, False, "new7"),                   # A: new node 7 in frame 3
    ("paint", 3, [[0, 0, 1], [4, 5, 5]], 8, 10, False, "over7"),           # B: node 8 swallows 7 (or is new)
    ("paint", 0, [[0], [0]], 0, 9, False, "part1"),                        # C
    UNDO,
])
# relabelling walks over 1100 nodes (deeper than the recursion limit); the invariants are
# evaluated after every call because no BFS stage visits this world
M_LONG = dict(name="M-long-chain", world="noseg-2d-long", seed="long", inv_every_call=True, items=[
    ("del_edge", 3, 4),
    ("del_edge", 1098, 1099),
    ("del_node", 2),
    ("add_edge", 1, 3, False),
    UNDO, REDO,
])
M3 = dict(name="M3-full-chain", world="noseg-2d", seed="chain", full_alphabet=True,
          kinds=("del_node", "del_edge", "add_edge", "add_node", "swap"))
M3S = dict(name="M3-full-seg-chain", world="seg-2d-core", seed="chain", full_alphabet=True,
           kinds=("del_node", "add_edge", "paint"))


def check_c02(tier):
    q = tier == "quick"
    menus = [(M1, 5 if q else 7), (M1B, 5 if q else 6), (M2, 4 if q else 6), (M3, 2 if q else 3), (M3S, 2),
             (M_DEEP, 7 if q else 9), (M_REFUSED, 6 if q else 8), (M_NESTED, 4 if q else 6), (M_DEEP_LIN, 8 if q else 9),
             (M_DEEP_SEG, 7 if q else 8), (M_LONG, 2 if q else 3)]
    res = run_e2("C02", tier, "C02", menus, time_budget=budget(tier, 400, 3000),
                 inv_props=("C03", "C04", "C05", "C06"))
    return merge_results(res, long_histories("C02", tier))


def long_histories(prop, tier):
    from . import smallscope as ss
    return run_e3(prop, tier, [("longhist", "histories of 3 and 300 accepted edits followed by complete unwinding / rewinding / a new edit (every call against the timeline)",
                                lambda: ss.long_history_cases(tier))], time_budget=budget(tier, 60, 600))


ENABLE = lambda *k: ("enable", tuple(k))  # noqa: E731
DISABLE = lambda *k: ("disable", tuple(k))  # noqa: E731

C10_SEG = dict(name="C10-seg-div", world="seg-2d-core", seed="div", items=[
    ENABLE("iou"), DISABLE("iou"), ENABLE("area"), DISABLE("area"), ENABLE("circularity", "iou"),
    ENABLE("nope"), DISABLE("iou", "nope"), ENABLE("iou", "nope"),
    ("paint", 0, [[1], [2]], 0, 9, False, "part1"),
    ("paint", 1, [[0, 0, 1, 1], [1, 2, 1, 2]], 3, 9, False, "over2"),
    ("del_edge", 1, 3),
    ("set_attr", 1, "area", 3.0),
    ("set_attr", 1, "iou", 0.5),
    UNDO, REDO,
])
C10_SEG_FD = dict(C10_SEG, name="C10-seg-div-featuredict", world="seg-2d-fd")
C10_SEG_FD_STALE = dict(C10_SEG, name="C10-seg-div-featuredict-stale-area", world="seg-2d-fd-stale")
# narrow label dtype, ids whose products / packed pairs wrap in it
C10_SEG_U8 = dict(name="C10-seg-u8ids", world="seg-2d-u8", seed="u8ids", items=[
    ENABLE("iou"), DISABLE("iou"), ENABLE("area"), DISABLE("area"),
    ("paint", 1, [[0], [1]], 0, 9, False, "part32"),
    ("del_edge", 16, 64),
    UNDO, REDO,
])
C10_NOSEG = dict(name="C10-noseg-div", world="noseg-2d", seed="div", items=[
    ENABLE("lineage_id"), DISABLE("lineage_id"), ENABLE("track_id"), DISABLE("track_id"),
    ENABLE("area"), DISABLE("nope"), ENABLE("lineage_id", "nope"),
    ("del_edge", 1, 3), ("add_edge", 3, 4, True), ("del_node", 2),
    ("set_attr", 1, "track_id", 7), ("set_attr", 1, "lineage_id", 7), ("set_attr", 1, "time", 2),
    UNDO, REDO,
])
C10_NOSEG_FD = dict(C10_NOSEG, name="C10-noseg-div-featuredict", world="noseg-2d-fd")


_EN = lambda *k: ("enable", tuple(k))  # noqa: E731
_DIS = lambda *k: ("disable", tuple(k))  # noqa: E731
# histories that switch segmentation-derived features off and on around mask edits
C08_TOGGLE = dict(name="C08-toggle-div", world="seg-2d-iso", seed="div", items=[
    _DIS("area"), _EN("area"), _DIS("pos"), _EN("pos"), _DIS("circularity"), _EN("circularity"),
    ("paint", 0, [[1], [2]], 0, 9, False, "part1"),
    ("paint", 1, [[0, 0, 1, 1], [1, 2, 1, 2]], 3, 9, False, "over2"),
    ("paint", 2, [[2, 2, 3, 3], [3, 4, 3, 4]], 5, 9, False, "new"),
    ("undo",), ("redo",),
])
C08_TOGGLE_ANISO = dict(C08_TOGGLE, name="C08-toggle-aniso", world="seg-2d-aniso", items=[
    it for it in C08_TOGGLE["items"] if not (it[0] in ("enable", "disable") and "circularity" in it[1])
] + [_DIS("ellipse_axis_radii"), _EN("ellipse_axis_radii")])
C09_TOGGLE = dict(name="C09-toggle-skip", world="seg-2d", seed="skip", items=[
    _DIS("iou"), _EN("iou"),
    ("paint", 0, [[0], [0]], 0, 9, False, "part1"),
    ("paint", 0, [[0, 1], [1, 1]], 0, 9, False, "erase-overlap-of-1-with-2"),   # IoU of edge (1,2) drops to exactly 0
    ("paint", 2, [[0, 0], [1, 3]], 2, 9, False, "grow2"),
    ("add_node", 4, 1, 1, False, "ok", [[0, 0, 1, 1], [0, 1, 0, 1]]),
    ("del_node", 2),
    ("undo",), ("redo",),
])
# an edge deleted while IoU is switched off (its stored value is stale by then) and brought back by
# undo after IoU was switched on again: dis, stroke, delete edge, en, undo needs length 5
C09_TOGGLE_EDGE = dict(name="C09-toggle-edge", world="seg-2d", seed="skip", items=[
    _DIS("iou"), _EN("iou"),
    ("paint", 0, [[0], [0]], 0, 9, False, "part1"),
    ("del_edge", 1, 2),
    ("undo",), ("redo",),
])


def check_c10(tier):
    q = tier == "quick"
    menus = [(C10_SEG, 3 if q else 4), (C10_SEG_FD, 3 if q else 4), (C10_SEG_FD_STALE, 2 if q else 3),
             (C10_NOSEG, 4 if q else 5), (C10_NOSEG_FD, 3 if q else 4), (C10_SEG_U8, 3 if q else 4)]
    res = run_e2("C10", tier, "C10", menus, time_budget=budget(tier, 400, 3000))
    from . import smallscope as ss
    return merge_results(res, run_e3("C10", tier, [("c08big", "area / position switched off, one-pixel edit of a mask of 12, 2 500 and 104 640 pixels, switched on again",
                                                     lambda: ss.c08_big_cases(tier, "C10"))], time_budget=budget(tier, 60, 600)))


# ---------------------------------------------------------------------------
# E3 plumbing

def run_e3(prop, tier, parts, assumptions=None, time_budget=None):
    """parts: list of (case_fn name, label, iterator factory)"""
    from . import smallscope
    t0 = time.time()
    deadline = t0 + time_budget if time_budget else None
    cov = {"states": 0, "transitions": 0, "traces_validated_against_impl": 0, "parts": [], "samples": [],
           "exhaustive": True, "caps": []}
    vio = []
    for name, label, factory in parts:
        print(f"[{prop}] part {label}")
        # file-writing cases cost 0.1-0.5 s each: hand them out in small chunks
        chunk = 6 if name in ("c12g", "c15") else (1 if name in ("c07big", "c08big", "longhist") else 200)
        r = smallscope.run_cases(name, factory(), chunk=chunk, deadline=deadline)
        for v in r["violations"]:
            v["check_fn"] = name
        vio.extend(v for v in r["violations"] if v["property"] in (prop, "C00"))
        cov["states"] += r["cases"]
        cov["transitions"] += r["cases"]
        cov["traces_validated_against_impl"] += r["cases"]
        cov["parts"].append({"name": label, "inputs_enumerated": r["cases"], "capped": r["capped"], "wall_s": round(r["wall_s"], 2)})
        cov["samples"].extend(r["samples"][:2])
        if r["capped"]:
            cov["exhaustive"] = False
            cov["caps"].append(f"{label}: {r['capped']}")
    cov["rule"] = ("exhaustive enumeration of all inputs of the function up to the stated size bound; each input is run "
                   "through the real function and compared with a brute-force reference; 'states' = inputs enumerated, "
                   "'transitions' = calls of the real function")

    def replay_fn(rec):
        sigs = smallscope.replay(rec)
        return sigs if rec["signature"] in sigs else []

    return {"coverage": cov, "violations": vio, "replay_fn": replay_fn,
            "assumptions": ["third-party behaviour (pandas, geff, zarr, scipy KDTree, skimage) is trusted"] + (assumptions or [])}


def check_c17(tier):
    from . import smallscope as ss
    return run_e3("C17", tier, [("c17", "all ordered lists of distinct column names from the vocabulary; two builders in a row on one header with the first map edited in place", lambda: ss.c17_cases(tier))],
                  time_budget=budget(tier, 120, 2400),
                  assumptions=["column names from a 24-name vocabulary built from the code's own key/display-name tables (16 names at the larger length bound)"])


def check_c18(tier):
    from . import smallscope as ss
    return run_e3("C18", tier, [
        ("c18p", "all multisets of lattice points (5 frames x 3 positions); two calls in a row on the same array for all ordered pairs of settings", lambda: ss.c18_points_cases(tier)),
        ("c18s", "all label arrays 4x1x3 with globally unique labels", lambda: ss.c18_seg_cases(tier)),
    ], time_budget=budget(tier, 120, 2400), assumptions=["integer lattice coordinates so that 'distance == maximum' is exact"])


def check_c19(tier):
    from . import smallscope as ss
    return run_e3("C19", tier, [
        ("c19u", "ensure_unique_labels: all arrays 4x1x2 over {0,1,2,5}, multiseg 2x2x1x2", lambda: ss.c19_unique_cases(tier)),
        ("c19r", "relabel_segmentation_with_track_id: all forests x label schemes (labels reused across frames, non-solution detections with foreign / reused labels)", lambda: ss.c19_relabel_cases(tier)),
    ], time_budget=budget(tier, 400, 2400))


def check_c13(tier):
    from . import smallscope as ss
    return run_e3("C13", tier, [("c13", "all label arrays 2x1x3 x all injective (time,label)->id assignments; one builder object for all ordered pairs of small data sets", lambda: ss.c13_cases(tier))],
                  time_budget=budget(tier, 400, 3000))


def check_c12(tier):
    from . import io_checks as io
    return run_e3("C12", tier, [
        ("c12", "tracks_from_df: all forests x id schemes x parent encodings x dims x column namings x extras x position orders, + malformed variants at every row; features argument; all ordered pairs of imports sharing the caller's name map",
         lambda: io.c12_cases(tier)),
        ("c12g", "import_from_geff: stores written with geff.write (thinned product of forests x id schemes x dims x namings x position modes)",
         lambda: io.c12_geff_cases(tier)),
    ], time_budget=budget(tier, 200, 3000))


def check_c15(tier):
    from . import io_checks as io
    return run_e3("C15", tier, [("c15", "all forests x all node subsets x {CSV, GEFF} x {noseg, seg}; export / edit / export / undo / export sessions on one object", lambda: io.c15_cases(tier))],
                  time_budget=budget(tier, 200, 3000))


# ---------------------------------------------------------------------------
# state-set checks (C14, C16): BFS collects the distinct states, then every state
# is rebuilt and put through the file round trips / read-only operations

def run_stateset(prop, tier, stages, state_fn_name, fmt_for=None, assumptions=None, time_budget=None):
    from . import io_checks as io
    t0 = time.time()
    deadline = t0 + time_budget if time_budget else None
    cov = {"states": 0, "transitions": 0, "traces_validated_against_impl": 0, "stages": [], "samples": [],
           "exhaustive": True, "caps": []}
    vio = []
    fn = getattr(io, state_fn_name)
    for st in stages:
        cfg = explore.Cfg(props=[], depth=st["depth"], kinds=st.get("kinds"))
        ws = [(wn, s) for wn in st["worlds"] for s in st["seeds"]]
        print(f"[{prop}] stage {st['name']}: collecting distinct states, depth {st['depth']}")
        r = explore.run(cfg, ws, deadline=deadline, collect_states=True, log=lambda *_a: None)
        states = r["state_list"]
        if st.get("formats"):
            tasks = [(wn, sj, hj, st["formats"]) for (wn, sj, hj) in states]
        else:
            tasks = [(wn, sj, hj) for (wn, sj, hj) in states]
        capped = r["capped"]
        if st.get("max_states") and len(tasks) > st["max_states"]:
            capped = f"{len(tasks)} distinct states > cap {st['max_states']}: only the first {st['max_states']} (BFS order) were checked"
            tasks = tasks[: st["max_states"]]
        res = explore.pmap(fn, tasks, chunk=4)
        n_ops = 0
        for k, v in res:
            n_ops += k
            for x in v:
                x["check_fn"] = state_fn_name
                x["task_formats"] = st.get("formats")
            vio.extend(v)
        cov["states"] += len(tasks)
        cov["transitions"] += n_ops
        cov["traces_validated_against_impl"] += n_ops
        cov["stages"].append({"name": st["name"], "worlds": st["worlds"], "seeds": st["seeds"], "depth": st["depth"],
                              "distinct_states": len(states), "states_checked": len(tasks), "operations": n_ops,
                              "formats": st.get("formats"), "capped": capped})
        if capped:
            cov["exhaustive"] = False
            cov["caps"].append(f"{st['name']}: {capped}")
        for t in tasks[1:3]:
            cov["samples"].append({"world": t[0], "seed": t[1], "history": t[2]})
        print(f"  {len(states)} distinct states, {n_ops} operations, {len(vio)} raw violations, {time.time() - t0:.1f}s")
    cov["rule"] = ("distinct states of an explicit-state BFS (all events per state, canonical-key de-duplication) on the real "
                   "code; every state is rebuilt from its history and every listed operation is executed on it; "
                   "'transitions' = operations (round trips / read-only calls) executed")

    def replay_fn(rec):
        c = rec["case"]
        if state_fn_name == "roundtrip_state":
            _n, v = io.roundtrip_state((c["world"], c["seed"], c["history"], [c["format"]]))
        else:
            _n, v = io.readonly_state((c["world"], c["seed"], c["history"]))
        sigs = sorted({x["signature"] for x in v})
        return sigs if rec["signature"] in sigs else []

    return {"coverage": cov, "violations": [v for v in vio if v["property"] == prop], "replay_fn": replay_fn,
            "assumptions": ASSUME_COMMON + ["geff / zarr / pandas / tifffile are trusted"] + (assumptions or [])}


def check_c14(tier):
    q = tier == "quick"
    sk = STRUCT_KINDS + ("set_attr",)
    stages = [
        dict(name="csv+internal noseg", worlds=["noseg-2d", "noseg-3d", "noseg-2d-axes", "noseg-2d-given", "noseg-2d-renamed"], seeds=NOSEG_SEEDS,
             depth=1 if q else 2, kinds=sk, formats=["csv", "internal"], max_states=None if q else 8000),
        dict(name="csv+internal seg", worlds=["seg-2d", "seg-3d-aniso"], seeds=HAND_SEEDS, depth=1, kinds=SEG_KINDS,
             formats=["csv", "internal"], max_states=1500 if q else None),
        dict(name="geff noseg", worlds=["noseg-2d", "noseg-3d", "noseg-2d-axes", "noseg-2d-renamed"], seeds=["div", "skip", "two", "zero"], depth=1, kinds=sk,
             formats=["geff"]),
        dict(name="geff seg", worlds=["seg-2d", "seg-3d-aniso"], seeds=["div", "skip"] if q else HAND_SEEDS, depth=1 if not q else 0,
             kinds=SEG_KINDS, formats=["geff"]),
        dict(name="big ids", worlds=["seg-2d-bigids", "noseg-2d-bigids"], seeds=["bigdiv"], depth=0 if q else 1, kinds=SEG_KINDS,
             formats=["csv", "internal", "geff"]),
    ]
    stages.append(dict(name="65-frame movie", worlds=["seg-2d-movie"], seeds=["movie"], depth=0, kinds=SEG_KINDS,
                       formats=["csv", "internal", "geff"]))
    stages.append(dict(name="ids above 2**16", worlds=["seg-2d"], seeds=["u32ids"], depth=0, kinds=SEG_KINDS,
                       formats=["csv", "internal", "geff"]))
    if q:
        stages.append(dict(name="geff seg edited", worlds=["seg-2d"], seeds=["desc"], depth=1, kinds=("del_node", "paint", "add_edge"),
                           formats=["geff"], max_states=120))
    return run_stateset("C14", tier, stages, "roundtrip_state", time_budget=budget(tier, 200, 3000),
                        assumptions=["key mapping supplied explicitly (the mapping corresponding to the exporter's column names), never inferred",
                                     "CSV read with float_precision='round_trip'", "the empty solution is not exported"])


def check_c16(tier):
    q = tier == "quick"
    sk = STRUCT_KINDS + ("set_attr",)
    stages = [
        dict(name="noseg", worlds=["noseg-2d", "noseg-2d-axes"] if q else ["noseg-2d", "noseg-3d", "noseg-2d-axes", "noseg-2d-given", "noseg-2d-renamed"],
             seeds=NOSEG_SEEDS, depth=1, kinds=sk),
        dict(name="seg", worlds=["seg-2d", "seg-2d-aniso", "seg-3d", "seg-2d-u8"], seeds=HAND_SEEDS if not q else ["div", "skip", "two", "desc"], depth=0 if q else 1, kinds=SEG_KINDS),
    ]
    if q:
        stages.append(dict(name="seg edited", worlds=["seg-2d"], seeds=["desc"], depth=1, kinds=("del_node", "paint", "add_edge")))
    stages.append(dict(name="big ids", worlds=["seg-2d-bigids", "noseg-2d-bigids"], seeds=["bigdiv"], depth=0 if q else 1, kinds=SEG_KINDS))
    stages.append(dict(name="65-frame movie", worlds=["seg-2d-movie"], seeds=["movie"], depth=0, kinds=SEG_KINDS))
    return run_stateset("C16", tier, stages, "readonly_state", time_budget=budget(tier, 200, 3000))


CHECKS = {
    "C12": check_c12,
    "C14": check_c14,
    "C15": check_c15,
    "C16": check_c16,
    "C13": check_c13,
    "C17": check_c17,
    "C18": check_c18,
    "C19": check_c19,
    "C02": check_c02,
    "C10": check_c10,
    "C07": check_c07,
    "C08": check_c08,
    "C09": check_c09,
    "C01": check_c01,
    "C03": check_c03,
    "C04": check_c04,
    "C05": check_c05,
    "C06": check_c06,
    "C11": check_c11,
    "C20": check_c20,
}
